"""
C16 / refactoring 1 equivalence demo.

Exercises RegionGraph.build_graph (region construction, Moebius counting numbers,
N / D / B message sets of the minimal non-convex graph) and, through them,
RegionGraph(..., convex=False).belief_propagation.

Prints a deterministic digest.  The output must be byte-identical on the
unmodified code and on the refactored code.

Region graphs keep their regions / message sets in Python sets of tuples of str,
whose iteration order depends on the str hash seed, so the script re-executes
itself with PYTHONHASHSEED=0 unless the caller has already pinned a seed.
"""
import os, sys
if 'PYTHONHASHSEED' not in os.environ:
    os.environ['PYTHONHASHSEED'] = '0'
    os.execv(sys.executable, [sys.executable] + sys.argv)

import hashlib, warnings
HERE = os.path.dirname(os.path.abspath(__file__))
ROOT = os.path.abspath(os.path.join(HERE, '..', '..'))
sys.path.insert(0, os.path.join(ROOT, 'src'))
warnings.filterwarnings('ignore')

import numpy as np
import mbi
from mbi import Domain, Factor, CliqueVector
from mbi.region_graph import RegionGraph

assert os.path.abspath(mbi.__file__).startswith(ROOT + os.sep), 'wrong mbi imported: %s' % mbi.__file__
np.set_printoptions(precision=8, suppress=False, linewidth=200)


def digest(arr):
    return hashlib.sha256(np.ascontiguousarray(arr, dtype=float).tobytes()).hexdigest()[:16]


def exact(domain, potentials, total, cliques):
    logp = sum(potentials[c] for c in cliques)
    logp = logp + (np.log(total) - logp.logsumexp())
    return logp.exp()


def make_potentials(domain, cliques, seed, neg_inf=False, scale=1.0, only=None):
    # only: the regions that get a non-zero potential (None = all of them)
    prng = np.random.RandomState(seed)
    pots = {}
    for cl in cliques:
        d = domain.project(cl)
        vals = scale * prng.normal(size=d.shape)
        if only is not None and cl not in only:
            vals = np.zeros(d.shape)
        if neg_inf and vals.size > 2:
            flat = vals.reshape(-1)
            flat[prng.randint(flat.size)] = -np.inf
        pots[cl] = Factor(d, vals)
    return CliqueVector(pots)


def dump_sets(name, table):
    # both the content (sorted) and the iteration order (as stored) are shown
    for key in sorted(table, key=repr):
        val = table[key]
        print('   %s[%s] sorted=%s' % (name, key, sorted(val)))
        print('   %s[%s] stored=%s type=%s' % (name, key, list(val), type(val).__name__))


def show_marginals(tag, mu):
    for cl in sorted(mu, key=repr):
        v = mu[cl].datavector()
        ok = bool(np.all(np.isfinite(v)) and np.all(v >= 0))
        print('   %s %s dom=%s finite&nonneg=%s sum=%.10f sha=%s' % (tag, cl, mu[cl].domain.attrs, ok, v.sum(), digest(v)))
        print('      ', np.round(v, 8)[:12])


CASES = [
    # name, attrs, shape, cliques, total, junction-tree-structured?
    ('chain', 'ABCD', (2, 3, 2, 4), [('A', 'B'), ('B', 'C'), ('C', 'D')], 1.0, True),
    ('chain-permuted', 'DBAC', (4, 3, 2, 2), [('B', 'A'), ('C', 'B'), ('D', 'C')], 250.0, True),
    ('star', 'ABCDE', (2, 2, 3, 2, 2), [('A', 'B'), ('A', 'C'), ('D', 'A'), ('A', 'E')], 10.0, True),
    ('jt-triples', 'ABCDE', (2, 3, 2, 2, 3), [('A', 'B', 'C'), ('B', 'C', 'D'), ('C', 'D', 'E')], 1000.0, True),
    ('triangle', 'ABC', (2, 3, 4), [('A', 'B'), ('B', 'C'), ('A', 'C')], 5.0, False),
    ('triples+chord', 'ABCDE', (2, 3, 2, 2, 3), [('A', 'B', 'C'), ('B', 'C', 'D'), ('C', 'D', 'E'), ('E', 'A')], 77.0, False),
    ('K5-pairs', 'ABCDE', (2, 2, 2, 3, 2),
     [('A', 'B'), ('A', 'C'), ('A', 'D'), ('A', 'E'), ('B', 'C'), ('B', 'D'), ('B', 'E'), ('C', 'D'), ('C', 'E'), ('D', 'E')], 1.0, False),
    ('overlapping-triples', 'ABCDEF', (2, 2, 2, 2, 2, 3),
     [('A', 'B', 'C'), ('A', 'B', 'D'), ('B', 'C', 'D'), ('C', 'D', 'E'), ('D', 'E', 'F'), ('A', 'F')], 123.0, False),
    ('four-way', 'ABCDEF', (2, 2, 2, 2, 2, 2),
     [('A', 'B', 'C', 'D'), ('B', 'C', 'D', 'E'), ('C', 'D', 'E', 'F'), ('A', 'B', 'F'), ('A', 'C', 'E')], 42.0, False),
    ('with-subsets', 'ABCD', (3, 2, 2, 2), [('A', 'B', 'C'), ('A', 'B'), ('C', 'D'), ('D',), ('B', 'D')], 9.0, False),
    ('disconnected', 'ABCD', (2, 2, 3, 2), [('A', 'B'), ('C', 'D')], 3.0, True),
    ('single-clique', 'ABC', (2, 2, 3), [('C', 'A', 'B')], 50.0, True),
]


def main():
    for name, attrs, shape, cliques, total, is_jt in CASES:
        domain = Domain(list(attrs), shape)
        print('=' * 78)
        print('CASE', name, 'domain', domain.attrs, domain.shape, 'total', total)
        for minimal in (True, False):
            rg = RegionGraph(domain, cliques, total=total, minimal=minimal, convex=False, iters=40)
            print(' minimal=%s' % minimal)
            print('   regions       ', sorted(rg.regions))
            print('   cliques       ', rg.cliques)
            print('   counting      ', sorted(rg.counting_numbers.items()))
            print('   message_order ', rg.message_order)
            print('   children      ', sorted((k, sorted(v)) for k, v in rg.children.items()))
            print('   parents       ', sorted((k, sorted(v)) for k, v in rg.parents.items()))
            dump_sets('N', rg.N)
            dump_sets('D', rg.D)
            dump_sets('B', rg.B)
            # seeds 0,1: potentials on the maximal input cliques only (the setting in which
            # exactness on junction-tree-structured clique sets is claimed); seed 2: on every region
            for seed, neg_inf, scale in ((0, False, 1.0), (1, True, 1.0), (2, False, 4.0)):
                rg = RegionGraph(domain, cliques, total=total, minimal=minimal, convex=False, iters=40)
                only = None if seed == 2 else [c for c in cliques if c in rg.regions and not any(set(c) < set(o) for o in cliques)]
                pots = make_potentials(domain, rg.cliques, seed, neg_inf, scale, only)
                mu = rg.belief_propagation(pots)
                show_marginals('gbp seed=%d ninf=%s' % (seed, neg_inf), mu)
                if is_jt and only is not None:
                    P = exact(domain, pots, total, [c for c in rg.cliques])
                    err = max(np.abs(mu[c].datavector() - P.project(c).datavector()).max() for c in rg.cliques)
                    print('   exactness: max abs error vs brute force / total = %.3e' % (err / total))
                # warm second call (messages persisted)
                mu2 = rg.belief_propagation(pots)
                show_marginals('warm', mu2)
        # the convex region graph is built by the same build_graph (other branch)
        rg = RegionGraph(domain, cliques, total=total, minimal=True, convex=True, iters=15)
        print(' convex: regions', sorted(rg.regions), 'counting', sorted(rg.counting_numbers.items()))
        print('   has N/D/B:', hasattr(rg, 'N'), hasattr(rg, 'D'), hasattr(rg, 'B'))
        pots = make_potentials(domain, rg.cliques, 3)
        mu = rg.belief_propagation(pots)
        show_marginals('hps', mu)


if __name__ == '__main__':
    main()

"""
C16 / refactoring 2 equivalence demo.

Exercises RegionGraph.generalized_belief_propagation (parent-to-child GBP with
damping, reached through RegionGraph(..., convex=False).belief_propagation):
cold and warm calls, 0 / 1 / many sweeps, minimal and saturated region graphs,
permuted attribute orders, -inf potentials, large potentials, several totals,
potentials on every region or on the maximal cliques only, a callback argument,
and the persisted message table after each call.

Prints a deterministic digest.  The output must be byte-identical on the
unmodified code and on the refactored code.

Region graphs keep their regions / message sets in Python sets of tuples of str,
whose iteration order depends on the str hash seed, so the script re-executes
itself with PYTHONHASHSEED=0 unless the caller has already pinned a seed.
"""
import os, sys
if 'PYTHONHASHSEED' not in os.environ:
    os.environ['PYTHONHASHSEED'] = '0'
    os.execv(sys.executable, [sys.executable] + sys.argv)

import hashlib, warnings
HERE = os.path.dirname(os.path.abspath(__file__))
ROOT = os.path.abspath(os.path.join(HERE, '..', '..'))
sys.path.insert(0, os.path.join(ROOT, 'src'))
warnings.filterwarnings('ignore')

import numpy as np
import mbi
from mbi import Domain, Factor, CliqueVector
from mbi.region_graph import RegionGraph

assert os.path.abspath(mbi.__file__).startswith(ROOT + os.sep), 'wrong mbi imported: %s' % mbi.__file__
np.set_printoptions(precision=8, suppress=False, linewidth=200)


def digest(arr):
    return hashlib.sha256(np.ascontiguousarray(arr, dtype=float).tobytes()).hexdigest()[:16]


def exact(domain, potentials, total, cliques):
    logp = sum(potentials[c] for c in cliques)
    logp = logp + (np.log(total) - logp.logsumexp())
    return logp.exp()


def make_potentials(domain, cliques, seed, neg_inf=False, scale=1.0, only=None):
    # only: the regions that get a non-zero potential (None = all of them)
    prng = np.random.RandomState(seed)
    pots = {}
    for cl in cliques:
        d = domain.project(cl)
        vals = scale * prng.normal(size=d.shape)
        if only is not None and cl not in only:
            vals = np.zeros(d.shape)
        if neg_inf and vals.size > 2:
            flat = vals.reshape(-1)
            flat[prng.randint(flat.size)] = -np.inf
        pots[cl] = Factor(d, vals)
    return CliqueVector(pots)


def show_messages(tag, rg):
    h = hashlib.sha256()
    for key in sorted(rg.messages, key=repr):
        m = rg.messages[key]
        h.update(repr((key, m.domain.attrs)).encode())
        h.update(np.ascontiguousarray(m.values, dtype=float).tobytes())
    print('   %s messages: n=%d keys-in-order-sha=%s values-sha=%s' % (
        tag, len(rg.messages), hashlib.sha256(repr(list(rg.messages)).encode()).hexdigest()[:16], h.hexdigest()[:16]))
    for key in rg.message_order[:3]:
        print('      msg', key, np.round(rg.messages[key].datavector(), 8)[:8])


def pot_digest(pots):
    h = hashlib.sha256()
    for key in sorted(pots, key=repr):
        h.update(repr((key, pots[key].domain.attrs)).encode())
        h.update(np.ascontiguousarray(pots[key].values, dtype=float).tobytes())
    return h.hexdigest()[:16]


def show_marginals(tag, mu):
    for cl in sorted(mu, key=repr):
        v = mu[cl].datavector()
        ok = bool(np.all(np.isfinite(v)) and np.all(v >= 0))
        print('   %s %s dom=%s finite&nonneg=%s sum=%.10f sha=%s' % (tag, cl, mu[cl].domain.attrs, ok, v.sum(), digest(v)))
        print('      ', np.round(v, 8)[:12])


CASES = [
    # name, attrs, shape, cliques, total, junction-tree-structured?
    ('chain', 'ABCD', (2, 3, 2, 4), [('A', 'B'), ('B', 'C'), ('C', 'D')], 1.0, True),
    ('chain-permuted', 'DBAC', (4, 3, 2, 2), [('B', 'A'), ('C', 'B'), ('D', 'C')], 250.0, True),
    ('star', 'ABCDE', (2, 2, 3, 2, 2), [('A', 'B'), ('A', 'C'), ('D', 'A'), ('A', 'E')], 10.0, True),
    ('jt-triples', 'ABCDE', (2, 3, 2, 2, 3), [('A', 'B', 'C'), ('B', 'C', 'D'), ('C', 'D', 'E')], 1000.0, True),
    ('triangle', 'ABC', (2, 3, 4), [('A', 'B'), ('B', 'C'), ('A', 'C')], 5.0, False),
    ('triples+chord', 'ABCDE', (2, 3, 2, 2, 3), [('A', 'B', 'C'), ('B', 'C', 'D'), ('C', 'D', 'E'), ('E', 'A')], 77.0, False),
    ('K5-pairs', 'ABCDE', (2, 2, 2, 3, 2),
     [('A', 'B'), ('A', 'C'), ('A', 'D'), ('A', 'E'), ('B', 'C'), ('B', 'D'), ('B', 'E'), ('C', 'D'), ('C', 'E'), ('D', 'E')], 1.0, False),
    ('overlapping-triples', 'ABCDEF', (2, 2, 2, 2, 2, 3),
     [('A', 'B', 'C'), ('A', 'B', 'D'), ('B', 'C', 'D'), ('C', 'D', 'E'), ('D', 'E', 'F'), ('A', 'F')], 123.0, False),
    ('four-way', 'ABCDEF', (2, 2, 2, 2, 2, 2),
     [('A', 'B', 'C', 'D'), ('B', 'C', 'D', 'E'), ('C', 'D', 'E', 'F'), ('A', 'B', 'F'), ('A', 'C', 'E')], 42.0, False),
    ('with-subsets', 'ABCD', (3, 2, 2, 2), [('A', 'B', 'C'), ('A', 'B'), ('C', 'D'), ('D',), ('B', 'D')], 9.0, False),
    ('disconnected', 'ABCD', (2, 2, 3, 2), [('A', 'B'), ('C', 'D')], 3.0, True),
    ('single-clique', 'ABC', (2, 2, 3), [('C', 'A', 'B')], 50.0, True),
]


def maximal(cliques, rg):
    return [c for c in cliques if c in rg.regions and not any(set(c) < set(o) for o in cliques)]


def main():
    calls = []
    for name, attrs, shape, cliques, total, is_jt in CASES:
        domain = Domain(list(attrs), shape)
        print('=' * 78)
        print('CASE', name, 'domain', domain.attrs, domain.shape, 'total', total)
        for minimal in (True, False):
            print(' minimal=%s' % minimal)
            # (seed, -inf entries, scale, potentials on maximal cliques only, iters)
            configs = [(0, False, 1.0, True, 40), (1, True, 1.0, True, 25), (2, False, 6.0, False, 25),
                       (3, False, 1.0, True, 0), (4, False, 1.0, False, 1), (5, True, 30.0, False, 3)]
            for seed, neg_inf, scale, max_only, iters in configs:
                rg = RegionGraph(domain, cliques, total=total, minimal=minimal, convex=False, iters=iters)
                only = maximal(cliques, rg) if max_only else None
                pots = make_potentials(domain, rg.cliques, seed, neg_inf, scale, only)
                # a potential vector may carry extra entries the oracle never looks at
                pots[('zz',)] = 'unused'
                before = {k: v for k, v in pots.items() if k != ('zz',)}
                h0 = pot_digest(before)
                tag = 'seed=%d ninf=%s scale=%g maxonly=%s iters=%d' % (seed, neg_inf, scale, max_only, iters)
                print('  --', tag)
                mu = rg.belief_propagation(pots, callback=lambda m: calls.append(1))
                print('   result type', type(mu).__name__, 'keys', list(mu.keys()))
                show_marginals('cold', mu)
                show_messages('cold', rg)
                if is_jt and max_only and not neg_inf and iters >= 25:
                    P = exact(domain, before, total, list(rg.cliques))
                    err = max(np.abs(mu[c].datavector() - P.project(c).datavector()).max() for c in rg.cliques)
                    print('   exactness: max abs error vs brute force / total = %.3e' % (err / total))
                # warm calls: messages persist between calls; second one with new potentials
                mu2 = rg.belief_propagation(pots)
                show_marginals('warm', mu2)
                show_messages('warm', rg)
                pots3 = make_potentials(domain, rg.cliques, seed + 100, False, 0.5, only)
                rg.iters = 2
                mu3 = rg.generalized_belief_propagation(pots3)
                show_marginals('warm-newpot', mu3)
                show_messages('warm-newpot', rg)
                # changing total between calls is honoured
                rg.total = 2 * total + 1
                mu4 = rg.belief_propagation(pots3)
                show_marginals('warm-newtotal', mu4)
                print('   potentials untouched:', pot_digest(before) == h0, h0)
    print('callback invocations:', len(calls))


if __name__ == '__main__':
    main()

"""
C16 / refactoring 3 equivalence demo.

Exercises FactorGraph(..., convex=False).belief_propagation (= loopy_belief_propagation,
sum-product in log space) together with clique_marginals, the persisted messages, the
per-attribute beliefs and project():
tree-shaped factor graphs (where the result must be exact after enough sweeps) and loopy
ones, permuted attribute orders, attribute names that are equal to but not the same objects
as the domain's names (JSON round trip), a clique listed twice, attributes not covered by
any clique, -inf potentials, large potentials, several totals, 0 / 1 / many sweeps, cold and
warm calls, and a callback (whose per-sweep marginals are part of the digest).

Prints a deterministic digest.  The output must be byte-identical on the unmodified code
and on the refactored code.
"""
import os, sys
if 'PYTHONHASHSEED' not in os.environ:
    os.environ['PYTHONHASHSEED'] = '0'
    os.execv(sys.executable, [sys.executable] + sys.argv)

import hashlib, json, warnings
HERE = os.path.dirname(os.path.abspath(__file__))
ROOT = os.path.abspath(os.path.join(HERE, '..', '..'))
sys.path.insert(0, os.path.join(ROOT, 'src'))
warnings.filterwarnings('ignore')

import numpy as np
import mbi
from mbi import Domain, Factor, CliqueVector
from mbi.factor_graph import FactorGraph

assert os.path.abspath(mbi.__file__).startswith(ROOT + os.sep), 'wrong mbi imported: %s' % mbi.__file__
np.set_printoptions(precision=8, suppress=False, linewidth=200)


def digest(arr):
    return hashlib.sha256(np.ascontiguousarray(arr, dtype=float).tobytes()).hexdigest()[:16]


def exact(potentials, total, cliques):
    logp = sum(potentials[c] for c in cliques)
    logp = logp + (np.log(total) - logp.logsumexp())
    return logp.exp()


def make_potentials(domain, cliques, seed, neg_inf=False, scale=1.0):
    prng = np.random.RandomState(seed)
    pots = {}
    for cl in cliques:
        d = domain.project(cl)
        vals = scale * prng.normal(size=d.shape)
        if neg_inf and vals.size > 2:
            flat = vals.reshape(-1)
            flat[prng.randint(flat.size)] = -np.inf
        pots[cl] = Factor(d, vals)
    return CliqueVector(pots)


def show_marginals(tag, mu):
    print('   %s type=%s keys=%s' % (tag, type(mu).__name__, list(mu.keys())))
    for cl in mu:
        v = mu[cl].datavector()
        ok = bool(np.all(np.isfinite(v)) and np.all(v >= 0))
        print('   %s %s dom=%s finite&nonneg=%s sum=%.10f sha=%s' % (tag, cl, mu[cl].domain.attrs, ok, v.sum(), digest(v)))
        print('      ', np.round(v, 8)[:12])


def show_state(tag, fg):
    mu_n, mu_f = fg.messages
    h = hashlib.sha256()
    order = []
    for name, table in (('n', mu_n), ('f', mu_f)):
        for a in table:
            for b in table[a]:
                m = table[a][b]
                order.append((name, a, b, m.domain.attrs))
                h.update(np.ascontiguousarray(m.values, dtype=float).tobytes())
    print('   %s messages: count=%d order-sha=%s values-sha=%s' % (
        tag, len(order), hashlib.sha256(repr(order).encode()).hexdigest()[:16], h.hexdigest()[:16]))
    print('   %s beliefs keys=%s' % (tag, list(fg.beliefs.keys())))
    for a in fg.beliefs:
        b = fg.beliefs[a]
        if isinstance(b, Factor):
            print('      belief', a, b.domain.attrs, np.round(b.datavector(), 8)[:6], digest(b.values))
        else:
            print('      belief', a, repr(b))
    print('   %s marginals attr is result: %s ; potentials attr set: %s' % (tag, fg.marginals is not None, fg.potentials is not None))


CASES = [
    # name, attrs, shape, cliques, total, is the factor graph a tree?
    ('chain', 'ABCD', (2, 3, 2, 4), [('A', 'B'), ('B', 'C'), ('C', 'D')], 1.0, True),
    ('chain-permuted', 'DBAC', (4, 3, 2, 2), [('B', 'A'), ('C', 'B'), ('D', 'C')], 250.0, True),
    ('star', 'ABCDE', (2, 2, 3, 2, 2), [('A', 'B'), ('A', 'C'), ('D', 'A'), ('A', 'E')], 10.0, True),
    ('tree-of-triples', 'ABCDEFG', (2, 3, 2, 2, 3, 2, 2), [('A', 'B', 'C'), ('C', 'D', 'E'), ('E', 'F', 'G'), ('D',)], 1000.0, True),
    ('uncovered-attr', 'ABCD', (2, 3, 2, 4), [('A', 'B'), ('C', 'B')], 7.0, True),
    ('single-clique', 'ABC', (2, 2, 3), [('C', 'A', 'B')], 50.0, True),
    ('singletons', 'AB', (3, 4), [('A',), ('B',)], 5.0, True),
    ('triangle', 'ABC', (2, 3, 4), [('A', 'B'), ('B', 'C'), ('A', 'C')], 5.0, False),
    ('jt-but-loopy-fg', 'ABCD', (2, 3, 2, 2), [('A', 'B', 'C'), ('B', 'C', 'D')], 77.0, False),
    ('K4-pairs', 'ABCD', (2, 2, 3, 2), [('A', 'B'), ('A', 'C'), ('A', 'D'), ('B', 'C'), ('B', 'D'), ('C', 'D')], 1.0, False),
    ('triples+chord', 'ABCDE', (2, 3, 2, 2, 3), [('A', 'B', 'C'), ('B', 'C', 'D'), ('C', 'D', 'E'), ('E', 'A')], 123.0, False),
    ('duplicate-clique', 'ABC', (2, 3, 2), [('A', 'B'), ('B', 'C'), ('A', 'B')], 4.0, False),
]


def main():
    sweeps = []
    for name, attrs, shape, cliques, total, is_tree in CASES:
        for roundtrip in (False, True):
            domain = Domain(list(attrs), shape)
            cl = list(cliques)
            if roundtrip:
                # equal but not identical attribute-name objects inside the clique tuples
                cl = [tuple(c) for c in json.loads(json.dumps(cl))]
            print('=' * 78)
            print('CASE', name, 'json-roundtrip-names=%s' % roundtrip, 'domain', domain.attrs, domain.shape, 'total', total)
            configs = [(0, False, 1.0, 30), (1, True, 1.0, 30), (2, False, 8.0, 12), (3, False, 1.0, 0), (4, True, 25.0, 1)]
            for seed, neg_inf, scale, iters in configs:
                fg = FactorGraph(domain, cl, total=total, convex=False, iters=iters)
                pots = make_potentials(domain, dict.fromkeys(cl), seed, neg_inf, scale)
                print('  -- seed=%d ninf=%s scale=%g iters=%d' % (seed, neg_inf, scale, iters))
                print('   counting numbers', sorted(fg.counting_numbers[2].items(), key=repr))
                show_state('init', fg)
                del sweeps[:]
                mu = fg.belief_propagation(pots, callback=lambda m: sweeps.append(
                    hashlib.sha256(b''.join(np.ascontiguousarray(m[c].values).tobytes() for c in m)).hexdigest()[:12]))
                print('   callback sweeps:', len(sweeps), sweeps[:3], sweeps[-1:] )
                show_marginals('cold', mu)
                show_state('cold', fg)
                print('   returned object is self.marginals:', mu is fg.marginals, '; potentials kept:', fg.potentials is pots)
                if is_tree and not roundtrip:
                    P = exact(pots, total, list(pots.keys()))
                    err = max(np.abs(mu[c].datavector() - P.project(c).datavector()).max() for c in mu)
                    print('   exactness: max abs error vs brute force / total = %.3e' % (err / total))
                # projections: inside a clique, single attribute, across cliques
                for q in ([cl[0][0]], list(cl[0]), [attrs[0], attrs[-1]]):
                    try:
                        pr = fg.project(q)
                        print('   project', q, pr.domain.attrs, np.round(pr.datavector(), 8)[:8], digest(pr.values))
                    except Exception as e:
                        print('   project', q, 'raised', type(e).__name__, e)
                # warm calls (messages persist): same potentials, then new potentials without callback
                mu2 = fg.belief_propagation(pots)
                show_marginals('warm', mu2)
                show_state('warm', fg)
                pots3 = make_potentials(domain, dict.fromkeys(cl), seed + 100, False, 0.5)
                fg.iters = 2
                fg.total = 2 * total + 1
                mu3 = fg.loopy_belief_propagation(pots3)
                show_marginals('warm-newpot-newtotal', mu3)
                show_state('warm-newpot-newtotal', fg)


if __name__ == '__main__':
    main()

"""
C18 / pair 1 -- the tables RETURNED by approximate estimation with the convex
oracle agree on their overlaps up to the tolerance the estimator enforces
(average L1 disagreement over the region-graph edges < 1.0), and are valid
(finite, nonnegative, sum to the total, fit no worse than the uniform start).

Exits 0 and prints PASS + a digest when every check holds, exits 1 and prints
FAIL + the offending configurations otherwise.
"""
import os, sys, hashlib, warnings

if os.environ.get('PYTHONHASHSEED') != '0':      # region sets are iterated: pin their order
    os.environ['PYTHONHASHSEED'] = '0'
    os.execv(sys.executable, [sys.executable] + sys.argv)

ROOT = os.path.dirname(os.path.dirname(os.path.dirname(os.path.abspath(__file__))))
sys.path.insert(0, os.path.join(ROOT, 'src'))
warnings.filterwarnings('ignore')

import numpy as np
import mbi
from mbi import Domain, Factor, LocalInference

assert os.path.abspath(mbi.__file__).startswith(os.path.join(ROOT, 'src')), mbi.__file__

TOL = 1.0   # the feasibility tolerance enforced by LocalInference.mirror_descent_auto


def make(seed, sizes, cliques, total, noise):
    rng = np.random.RandomState(seed)
    attrs = ['A', 'B', 'C', 'D'][:len(sizes)]
    dom = Domain(attrs, sizes)
    p = rng.dirichlet(np.ones(dom.size()) * 0.5)
    x = rng.multinomial(total, p).reshape(dom.shape)
    data = Factor(dom, x.astype(float))
    meas = []
    for cl in cliques:
        y = data.project(cl).datavector()
        y = y + rng.normal(0, noise, y.size)
        meas.append((np.eye(y.size), y, noise, cl))
    return dom, meas


def l2_loss(tables, meas):
    return sum(0.5 * np.sum(((Q @ tables[cl] - y) / s) ** 2) for Q, y, s, cl in meas)


def edge_disagreement(model):
    """ average L1 disagreement between a region table and each of its child
        regions, computed here independently of RegionGraph.primal_feasibility """
    errs = []
    for r in model.cliques:
        for s in model.children[r]:
            a = model.marginals[r].project(s).datavector()
            b = model.marginals[s].datavector()
            errs.append(np.abs(a - b).sum())
    return float(np.mean(errs)) if errs else 0.0


def overlap_disagreement(model, cliques):
    """ largest L1 disagreement between two measured tables on shared attributes """
    worst = 0.0
    for i, r in enumerate(cliques):
        for s in cliques[:i]:
            d = tuple(sorted(set(r) & set(s)))
            if d:
                a = model.project(r).project(d).datavector()
                b = model.project(s).project(d).datavector()
                worst = max(worst, float(np.abs(a - b).sum()))
    return worst


TRIANGLE = [('A', 'B'), ('B', 'C'), ('A', 'C'), ('C', 'D')]
TRIPLES = [('A', 'B', 'C'), ('B', 'C', 'D'), ('A', 'D')]
CHAIN = [('A', 'B'), ('B', 'C')]

#          seed sizes         cliques   total   noise iters
CONFIGS = [
    # long runs: the gradient loop itself ends (almost) feasible
    (0, [3, 4, 2, 3], TRIANGLE, 10,     1.0,  300),
    (1, [3, 4, 2, 3], TRIANGLE, 1000,   1.0,  300),
    (3, [3, 4, 2, 3], TRIANGLE, 100000, 1.0,  300),
    (2, [2, 3, 2],    CHAIN,    50,     2.0,  200),
    # short optimisation budgets and/or large totals: the oracle's messages lag
    # behind the potentials when the gradient loop stops
    (4, [3, 4, 2, 3], TRIANGLE, 1000,   1.0,  60),
    (5, [3, 4, 2, 3], TRIPLES,  100000, 1.0,  20),
    (6, [3, 4, 2, 3], TRIPLES,  1000,   10.0, 5),
    (7, [3, 4, 2, 3], TRIANGLE, 100000, 10.0, 5),
    (8, [4, 4, 4],    [('A', 'B'), ('B', 'C'), ('A', 'C')], 50000, 5.0, 30),
]

failures = []
lines = []
for seed, sizes, cliques, total, noise, iters in CONFIGS:
    tag = 'seed=%d cliques=%s total=%g noise=%g iters=%d' % (
        seed, '+'.join(''.join(c) for c in cliques), total, noise, iters)
    dom, meas = make(seed, sizes, cliques, total, noise)
    try:
        engine = LocalInference(dom, iters=iters, marginal_oracle='convex')
        model = engine.estimate(meas, total=total)
    except Exception as e:
        failures.append('%s: estimate raised %r' % (tag, e))
        continue

    tables = {cl: model.project(cl).datavector() for cl in cliques}
    uniform = {cl: np.ones(dom.size(cl)) * total / dom.size(cl) for cl in cliques}
    for cl, t in tables.items():
        if not np.all(np.isfinite(t)):
            failures.append('%s: table %s is not finite' % (tag, cl))
        elif t.min() < 0:
            failures.append('%s: table %s has a negative cell' % (tag, cl))
        elif abs(t.sum() - total) > 1e-6 * total:
            failures.append('%s: table %s sums to %r, not %r' % (tag, cl, t.sum(), total))
    fit, fit0 = l2_loss(tables, meas), l2_loss(uniform, meas)
    if not fit <= fit0 * (1 + 1e-9):
        failures.append('%s: fit %r is worse than the uniform start %r' % (tag, fit, fit0))

    edge = edge_disagreement(model)
    pair = overlap_disagreement(model, cliques)
    if not edge < TOL:
        failures.append('%s: returned tables disagree on their overlaps: average L1 gap over '
                        'region-graph edges is %.4f, the estimator enforces < %.1f '
                        '(largest gap between two measured tables: %.4f)' % (tag, edge, TOL, pair))

    h = hashlib.sha256()
    for cl in cliques:
        h.update(np.round(tables[cl], 6).tobytes())
    lines.append('%s | fit=%.6f uniform=%.6f edge_gap=%.6f pair_gap=%.6f tables=%s' % (
        tag, fit, fit0, edge, pair, h.hexdigest()[:16]))

if failures:
    print('FAIL')
    for f in failures:
        print('  ' + f)
    sys.exit(1)

print('PASS')
for ln in lines:
    print(ln)
print('digest', hashlib.sha256('\n'.join(lines).encode()).hexdigest())
sys.exit(0)

"""C18 pair 2 - FactorGraph.clique_marginals: normalising the clique beliefs to the total.

Clause exercised: approximate estimation returns, for every measured clique, a FINITE
NONNEGATIVE table SUMMING TO THE TOTAL (pairwise oracle; all iteration counts).

Exit 0 + PASS + digest on correct code, exit 1 + FAIL + explanation otherwise.
"""
import os, sys, hashlib, warnings

if os.environ.get('PYTHONHASHSEED') != '0':          # deterministic set/dict-of-str order
    env = dict(os.environ, PYTHONHASHSEED='0')
    os.execve(sys.executable, [sys.executable] + sys.argv, env)

ROOT = os.path.dirname(os.path.dirname(os.path.dirname(os.path.abspath(__file__))))
sys.path[0:0] = [os.path.join(ROOT, 'src'), ROOT]
warnings.filterwarnings('ignore')

import numpy as np
import mbi
from mbi import Domain, Factor, LocalInference
assert os.path.abspath(mbi.__file__).startswith(ROOT + os.sep), mbi.__file__


def measurements(domain, cliques, total, noise, seed):
    rng = np.random.default_rng(seed)
    p = rng.random(domain.shape)
    data = Factor(domain, p / p.sum() * total)
    ms = []
    for cl in cliques:
        x = data.project(cl).datavector()
        ms.append((np.eye(x.size), x + rng.normal(0, noise, x.size), noise, cl))
    return ms


def check(tag, model, cliques, total, problems, lines):
    h = hashlib.sha256()
    for cl in cliques:
        x = model.project(cl).datavector()
        h.update(np.round(x / total, 9).tobytes())
        if not np.all(np.isfinite(x)):
            problems.append('%s: table of %s is not finite' % (tag, cl))
        elif x.min() < 0:
            problems.append('%s: table of %s has a negative cell (%g)' % (tag, cl, x.min()))
        elif abs(x.sum() - total) > 1e-6 * total:
            problems.append('%s: table of %s sums to %.6g, total is %g' % (tag, cl, x.sum(), total))
    lines.append('%-58s %s' % (tag, h.hexdigest()[:16]))


D3 = Domain(['A', 'B', 'C'], [2, 3, 4])
D4 = Domain(['age', 'sex', 'edu', 'inc'], [4, 2, 3, 2])
CHAIN3 = [('A', 'B'), ('B', 'C')]
LOOP4 = [('age', 'sex'), ('sex', 'edu'), ('edu', 'inc'), ('age', 'inc')]

# (domain, cliques, total, noise, iters, seed, oracle)
CASES = [
    # well-conditioned inputs: strong signal, few / many iterations, all three oracles
    (D3, CHAIN3, 100, 2.0, 1, 0, 'pairwise'),
    (D3, CHAIN3, 100, 2.0, 25, 0, 'pairwise'),
    (D3, CHAIN3, 100, 2.0, 400, 0, 'pairwise'),
    (D4, LOOP4, 5000, 20.0, 200, 3, 'pairwise'),
    (D4, LOOP4, 5000, 20.0, 200, 3, 'convex'),
    (D4, LOOP4, 5000, 20.0, 200, 3, 'approx'),
    (D3, [('A',), ('B', 'C')], 1.0, 0.05, 300, 5, 'pairwise'),
    # noise-dominated inputs (noise >= total), short runs
    (D3, CHAIN3, 1.0, 1.0, 50, 1, 'pairwise'),
    (D3, CHAIN3, 10, 5.0, 200, 2, 'pairwise'),
    # noise-dominated inputs, LONG runs: the unnormalised potentials drift by a constant
    # every step (sum(y) != total), so the clique beliefs reach +-1000 and beyond
    (D3, CHAIN3, 1.0, 1.0, 1000, 1, 'pairwise'),
    (D3, CHAIN3, 1.0, 1.0, 2500, 3, 'pairwise'),
    (D4, LOOP4, 1.0, 1.0, 1500, 1, 'pairwise'),
    (D3, CHAIN3, 1.0, 1.0, 1000, 1, 'convex'),
]


def main():
    problems, lines = [], []
    for dom, cliques, total, noise, iters, seed, oracle in CASES:
        ms = measurements(dom, cliques, total, noise, seed)
        tag = '%s n=%d total=%g noise=%g iters=%d seed=%d' % (oracle, len(dom), total, noise, iters, seed)
        try:
            model = LocalInference(dom, iters=iters, marginal_oracle=oracle).estimate(ms, total=total)
        except Exception as e:                                   # "completes without error"
            problems.append('%s: estimate raised %r' % (tag, e))
            continue
        check(tag, model, cliques, total, problems, lines)

    # a re-used warm-started engine (AIM style): the potentials, and their drift, carry over
    engine = LocalInference(D3, iters=400, marginal_oracle='pairwise', warm_start=True)
    ms = measurements(D3, CHAIN3, 1.0, 1.0, 1)
    for rnd in range(4):
        tag = 'pairwise warm-start round %d (400 iters each)' % rnd
        try:
            model = engine.estimate(ms, total=1.0)
        except Exception as e:
            problems.append('%s: estimate raised %r' % (tag, e))
            break
        check(tag, model, CHAIN3, 1.0, problems, lines)

    print('\n'.join(lines))
    if problems:
        print('FAIL: approximate estimation returned an invalid table '
              '(must be finite, nonnegative and sum to the total):')
        for p in problems:
            print('  - ' + p)
        sys.exit(1)
    print('PASS digest=' + hashlib.sha256('\n'.join(lines).encode()).hexdigest())
    sys.exit(0)


if __name__ == '__main__':
    main()

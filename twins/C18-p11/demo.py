"""C18 / pair 1 -- "the tables sum to the total" for every way an oracle can be
configured, including a caller-built RegionGraph / FactorGraph object whose
total is assigned by LocalInference._setup AFTER construction.

exit 0 + PASS + digest : property holds on all scenarios
exit 1 + FAIL          : some table violates the property
"""
import os, sys, warnings, hashlib

ROOT = os.path.dirname(os.path.dirname(os.path.dirname(os.path.abspath(__file__))))
if os.environ.get('PYTHONHASHSEED') != '0':
    # iteration order of sets of tuples of str depends on the hash seed; pin it so
    # that the digest is reproducible to the last bit
    env = dict(os.environ, PYTHONHASHSEED='0')
    os.execve(sys.executable, [sys.executable] + sys.argv, env)
sys.path.insert(0, os.path.join(ROOT, 'src'))
warnings.simplefilter('ignore')

import numpy as np
import mbi
from mbi import Domain, Factor, LocalInference, FactoredInference, RegionGraph, FactorGraph, CliqueVector

assert os.path.abspath(mbi.__file__).startswith(ROOT), mbi.__file__

ITERS = 150
problems = []
digest = []


def measurements(dom, cliques, total, seed, noise=1.0):
    rng = np.random.RandomState(seed)
    full = rng.rand(*dom.shape)
    P = Factor(dom, full / full.sum() * total)
    out = []
    for cl in cliques:
        x = P.project(cl).datavector()
        out.append((np.eye(x.size), x + rng.normal(0, noise, x.size), noise, cl))
    return out


def loss_of(tables, ms):
    return sum(0.5 * np.sum(((Q @ tables[cl] - y) / s) ** 2) for Q, y, s, cl in ms)


def check(tag, model, dom, ms, total, convex):
    tables = {cl: model.project(cl).datavector() for _, _, _, cl in ms}
    for cl, x in tables.items():
        if not np.all(np.isfinite(x)):
            problems.append('%s: table %s is not finite' % (tag, cl))
        elif x.min() < 0:
            problems.append('%s: table %s has a negative cell' % (tag, cl))
        elif abs(x.sum() - total) > 1e-6 * total:
            problems.append('%s: table %s sums to %.6g, total is %.6g' % (tag, cl, x.sum(), total))
    uniform = {cl: np.full(dom.size(cl), total / dom.size(cl)) for cl in tables}
    l, l0 = loss_of(tables, ms), loss_of(uniform, ms)
    if not l <= l0 * (1 + 1e-9):
        problems.append('%s: fit %.6g is worse than the uniform start %.6g' % (tag, l, l0))
    feas = model.primal_feasibility(model.marginals)
    if convex and not feas < 1.0:
        problems.append('%s: overlapping tables disagree by %.4g (tolerance 1.0)' % (tag, feas))
    digest.append('%-34s total=%-10.4f loss=%.6f feas=%.6f sum=%s' % (
        tag, total, l, feas, ' '.join('%.5f' % x.sum() for x in tables.values())))
    for cl in sorted(tables):
        digest.append('    %s %s' % (''.join(cl), np.array2string(tables[cl], precision=5, max_line_width=10**6)))
    return tables


dom = Domain(['A', 'B', 'C', 'D'], [2, 3, 2, 3])
chain = [('A', 'B'), ('B', 'C'), ('C', 'D')]
disjoint = [('A', 'B'), ('C', 'D')]


def oracle_object(kind, cliques):
    """ the documented fourth form of marginal_oracle: 'Can also pass any
    FactorGraph or RegionGraph object' -- built by the caller, total not known yet """
    if kind == 'convex':
        return RegionGraph(dom, list(cliques), convex=True, iters=1)
    if kind == 'approx':
        return RegionGraph(dom, list(cliques), convex=False, iters=1)
    fg = FactorGraph(dom, list(cliques), convex=False, iters=1)
    # a FactorGraph starts with potentials=None; the caller has to provide them
    fg.potentials = CliqueVector.zeros(dom, fg.cliques)
    return fg


# 1. oracles selected by name, total given / estimated
for kind in ['convex', 'approx', 'pairwise']:
    for total in [40.0, 2500.0]:
        ms = measurements(dom, chain, total, seed=1)
        eng = LocalInference(dom, marginal_oracle=kind, iters=ITERS)
        check('name:%s chain' % kind, eng.estimate(ms, total=total), dom, ms, total, kind == 'convex')
    ms = measurements(dom, chain, 300.0, seed=2)
    eng = LocalInference(dom, marginal_oracle=kind, iters=ITERS)
    model = eng.estimate(ms)
    check('name:%s chain total=None' % kind, model, dom, ms, float(model.total), kind == 'convex')

# 2. the same oracles handed over as objects (total is assigned after construction)
for kind in ['convex', 'approx', 'pairwise']:
    for total in [40.0, 2500.0]:
        ms = measurements(dom, chain, total, seed=1)
        eng = LocalInference(dom, marginal_oracle=oracle_object(kind, chain), iters=ITERS)
        check('object:%s chain' % kind, eng.estimate(ms, total=total), dom, ms, total, kind == 'convex')
    ms = measurements(dom, chain, 300.0, seed=2)
    eng = LocalInference(dom, marginal_oracle=oracle_object(kind, chain), iters=ITERS)
    model = eng.estimate(ms)
    check('object:%s chain total=None' % kind, model, dom, ms, float(model.total), kind == 'convex')

# 3. one oracle object re-used for a second data set with another total
for kind in ['convex', 'approx']:
    obj = oracle_object(kind, chain)
    eng = LocalInference(dom, marginal_oracle=obj, iters=ITERS)
    for total, seed in [(60.0, 3), (900.0, 4)]:
        ms = measurements(dom, chain, total, seed=seed)
        check('reused object:%s' % kind, eng.estimate(ms, total=total), dom, ms, total, kind == 'convex')

# 4. exactness on a disjoint family, oracle passed by name and as object
total = 500.0
ms = measurements(dom, disjoint, total, seed=5)
exact = FactoredInference(dom, iters=3000).estimate(ms, total=total, engine='MD')
for kind in ['convex', 'approx', 'pairwise']:
    for form, oracle in [('name', kind), ('object', oracle_object(kind, disjoint))]:
        eng = LocalInference(dom, marginal_oracle=oracle, iters=400)
        tables = check('%s:%s disjoint' % (form, kind), eng.estimate(ms, total=total), dom, ms, total, kind == 'convex')
        gap = max(np.abs(tables[cl] - exact.project(cl).datavector()).max() for cl in disjoint)
        if not gap < 1e-3 * total:
            problems.append('%s:%s disjoint: differs from exact estimation by %.4g' % (form, kind, gap))
        digest.append('    gap to exact < 1e-3*total: %s' % (gap < 1e-3 * total))

text = '\n'.join(digest)
if problems:
    print('FAIL')
    for p in problems:
        print('  ' + p)
    sys.exit(1)
print('PASS')
print(text)
print('digest', hashlib.sha256(text.encode()).hexdigest())

"""C18 / pair 2 -- "approximate estimation completes without error" for every oracle,
also when several estimations are run one after another in one process (with and
without a callback, with and without log=True, on different measurement sets).

exit 0 + PASS + digest : every estimation completed, callbacks were used only by the
                         call they were given to, all tables valid
exit 1 + FAIL          : an estimation raised / ran a callback it was never given
"""
import os, sys, io, contextlib, warnings, hashlib

ROOT = os.path.dirname(os.path.dirname(os.path.dirname(os.path.abspath(__file__))))
if os.environ.get('PYTHONHASHSEED') != '0':
    env = dict(os.environ, PYTHONHASHSEED='0')
    os.execve(sys.executable, [sys.executable] + sys.argv, env)
sys.path.insert(0, os.path.join(ROOT, 'src'))
warnings.simplefilter('ignore')

import numpy as np
import mbi
from mbi import Domain, Factor, LocalInference

assert os.path.abspath(mbi.__file__).startswith(ROOT), mbi.__file__

ITERS = 120
problems = []
digest = []


def measurements(dom, cliques, total, seed, noise=1.0):
    rng = np.random.RandomState(seed)
    full = rng.rand(*dom.shape)
    P = Factor(dom, full / full.sum() * total)
    out = []
    for cl in cliques:
        x = P.project(cl).datavector()
        out.append((np.eye(x.size), x + rng.normal(0, noise, x.size), noise, cl))
    return out


def loss_of(tables, ms):
    return sum(0.5 * np.sum(((Q @ tables[cl] - y) / s) ** 2) for Q, y, s, cl in ms)


def run(tag, engine, dom, ms, total, **kw):
    """ one estimation; any exception is a violation of the property """
    sink = io.StringIO()          # log=True prints wall-clock times: keep them out of the digest
    try:
        with contextlib.redirect_stdout(sink):
            model = engine.estimate(ms, total=total, **kw)
    except Exception as e:
        problems.append('%s: estimate raised %s: %s' % (tag, type(e).__name__, e))
        digest.append('%-40s raised %s' % (tag, type(e).__name__))
        return None
    tables = {cl: model.project(cl).datavector() for _, _, _, cl in ms}
    for cl, x in tables.items():
        if not (np.all(np.isfinite(x)) and x.min() >= 0 and abs(x.sum() - total) <= 1e-6 * total):
            problems.append('%s: table %s is not a valid table summing to %g' % (tag, cl, total))
    uniform = {cl: np.full(dom.size(cl), total / dom.size(cl)) for cl in tables}
    l, l0 = loss_of(tables, ms), loss_of(uniform, ms)
    if not l <= l0 * (1 + 1e-9):
        problems.append('%s: fit %.6g is worse than the uniform start %.6g' % (tag, l, l0))
    digest.append('%-40s loss=%.6f logged=%s' % (tag, l, len(sink.getvalue()) > 0))
    for cl in sorted(tables):
        digest.append('    %s %s' % (''.join(cl), np.array2string(tables[cl], precision=5, max_line_width=10**6)))
    return model


class Trace:
    """ a user diagnostic written for ONE measurement set: tracks the error on its cliques """
    def __init__(self, ms):
        self.ms = ms
        self.errors = []

    def __call__(self, marginals):
        self.errors.append(sum(np.abs(Q @ marginals[cl].datavector() - y).sum() for Q, y, _, cl in self.ms))


dom1 = Domain(['A', 'B', 'C', 'D'], [2, 3, 2, 3])
dom2 = Domain(['A', 'B', 'C', 'D'], [3, 2, 4, 2])      # same attribute names, other discretisation
chain = [('A', 'B'), ('B', 'C'), ('C', 'D')]
other = [('A', 'C'), ('C', 'D')]

for kind in ['convex', 'approx', 'pairwise']:
    # (a) callback given, then not given, then options dict of the caller
    ms = measurements(dom1, chain, 200.0, seed=1)
    eng = LocalInference(dom1, marginal_oracle=kind, iters=ITERS)
    tr = Trace(ms)
    run('%s a1 callback' % kind, eng, dom1, ms, 200.0, callback=tr)
    n1 = len(tr.errors)
    digest.append('    callback invocations: %d' % n1)
    if n1 == 0:
        problems.append('%s a1: the callback that was passed was never invoked' % kind)
    run('%s a2 no callback, same data' % kind, eng, dom1, ms, 200.0)
    if len(tr.errors) != n1:
        problems.append('%s a2: estimate() without callback invoked the callback of an earlier call %d times'
                        % (kind, len(tr.errors) - n1))
    n1 = len(tr.errors)
    run('%s a3 caller options' % kind, eng, dom1, ms, 200.0, options={'initial_alpha': 2.0})
    if len(tr.errors) != n1:
        problems.append('%s a3: estimate(options=...) invoked the callback of an earlier call' % kind)

    # (b) same engine: traced run on one measurement set, plain run on another one
    eng = LocalInference(dom1, marginal_oracle=kind, iters=ITERS)
    ms1 = measurements(dom1, chain, 200.0, seed=2)
    ms2 = measurements(dom1, other, 350.0, seed=3)
    run('%s b1 traced, cliques AB BC CD' % kind, eng, dom1, ms1, 200.0, callback=Trace(ms1))
    run('%s b2 plain, cliques AC CD' % kind, eng, dom1, ms2, 350.0)

    # (c) a logging engine on one data set, then a quiet engine on a re-discretised data set
    loud = LocalInference(dom1, marginal_oracle=kind, iters=ITERS, log=True)
    run('%s c1 log=True, domain 1' % kind, loud, dom1, measurements(dom1, chain, 200.0, seed=4), 200.0)
    quiet = LocalInference(dom2, marginal_oracle=kind, iters=ITERS, log=False)
    run('%s c2 log=False, domain 2' % kind, quiet, dom2, measurements(dom2, chain, 120.0, seed=5), 120.0)

text = '\n'.join(digest)
if problems:
    print('FAIL')
    for p in problems:
        print('  ' + p)
    sys.exit(1)
print('PASS')
print(text)
print('digest', hashlib.sha256(text.encode()).hexdigest())

"""C18 pair 1 - demonstration.

Site: LocalInference._setup (src/mbi/local_inference.py), early normalisation of the
`proj` component of the measurement tuples.

Checks, on several measurement sets and for the three marginal oracles that can be
built in this environment (convex, approx, pairwise):
  * estimate() completes,
  * every measured clique gets a finite nonnegative table summing to the total,
  * the fit is no worse than the uniform start,
  * on DISJOINT clique families the result coincides with exact estimation
    (FactoredInference) - tables and loss.
Exit 0 + PASS + digest when all checks hold, exit 1 + FAIL otherwise.
"""
import os
import sys

if os.environ.get('PYTHONHASHSEED') != '0':
    # set iteration order of tuples of strings must not change between runs
    env = dict(os.environ, PYTHONHASHSEED='0')
    os.execve(sys.executable, [sys.executable] + sys.argv, env)

ROOT = os.path.dirname(os.path.dirname(os.path.dirname(os.path.abspath(__file__))))
sys.path.insert(0, os.path.join(ROOT, 'src'))

import hashlib
import warnings
warnings.simplefilter('ignore')
import numpy as np
import mbi
from mbi import Domain, Factor, LocalInference, FactoredInference

assert os.path.abspath(mbi.__file__).startswith(ROOT), mbi.__file__

DOM = Domain(['A', 'B', 'C', 'D'], [3, 4, 2, 5])
ORACLES = ['convex', 'approx', 'pairwise']
TOTAL = 400.0


def make_measurements(seed, cliques, noise, with_total_row):
    rng = np.random.RandomState(seed)
    x = rng.dirichlet(0.3 * np.ones(DOM.size())) * TOTAL
    data = Factor(DOM, x)
    out = []
    for i, cl in enumerate(cliques):
        v = data.project(cl).datavector()      # flattened in the order given by cl
        Q = np.eye(v.size)
        if with_total_row:
            Q = np.vstack([Q, np.ones((1, v.size))])
        sigma = noise * (1 + i)
        y = Q @ v + rng.normal(0, sigma, Q.shape[0])
        out.append((Q, y, sigma, cl))
    return out


def loss_of(tables, measurements):
    return float(sum(0.5 * np.sum(((Q @ tables[p] - y) / s) ** 2)
                     for Q, y, s, p in measurements))


def uniform_loss(measurements, total):
    tabs = {p: np.ones(Q.shape[1]) * total / Q.shape[1] for Q, y, s, p in measurements}
    return loss_of(tabs, measurements)


CASES = [
    # name, cliques, noise, total row, total passed to estimate, disjoint?
    ('disjoint/domain-order', [('A', 'B'), ('C', 'D')], 4.0, False, TOTAL, True),
    ('disjoint/reversed-order', [('B', 'A'), ('D', 'C')], 4.0, True, None, True),
    ('chain/domain-order', [('A', 'B'), ('B', 'C'), ('C', 'D')], 4.0, False, TOTAL, False),
    ('chain/mixed-order', [('A', 'B'), ('C', 'B'), ('D', 'C')], 4.0, False, TOTAL, False),
]

failures = []
digest = hashlib.sha256()
lines = []

for ci, (name, cliques, noise, totrow, total_arg, disjoint) in enumerate(CASES):
    M = make_measurements(10 + ci, cliques, noise, totrow)
    exact_tabs = None
    if disjoint:
        exact = FactoredInference(DOM, iters=1500).estimate(M, total=total_arg)
        exact_tabs = {cl: exact.project(cl).datavector() for cl in cliques}
        exact_loss = loss_of(exact_tabs, M)
    for oracle in ORACLES:
        tag = '%s/%s' % (name, oracle)
        try:
            engine = LocalInference(DOM, iters=400, marginal_oracle=oracle)
            model = engine.estimate(M, total=total_arg)
            tabs = {cl: model.project(cl).datavector() for cl in cliques}
        except Exception as e:  # clause: completes without error
            failures.append('%s: estimate raised %s: %s' % (tag, type(e).__name__, e))
            continue
        tot = model.total
        for cl in cliques:
            t = tabs[cl]
            if t.shape != (DOM.size(cl),) or not np.all(np.isfinite(t)) or t.min() < 0:
                failures.append('%s: table of %s is not a finite nonnegative vector' % (tag, cl))
            elif abs(t.sum() - tot) > 1e-6 * tot:
                failures.append('%s: table of %s sums to %r, total is %r' % (tag, cl, t.sum(), tot))
        l = loss_of(tabs, M)
        l0 = uniform_loss(M, tot)
        if not l <= l0 * (1 + 1e-9):
            failures.append('%s: fit %.6g is WORSE than the uniform start %.6g' % (tag, l, l0))
        if disjoint:
            gap = max(np.abs(tabs[cl] - exact_tabs[cl]).max() for cl in cliques)
            if gap > 0.05 or abs(l - exact_loss) > 1e-3 * max(1.0, exact_loss):
                failures.append('%s: cliques are disjoint but the estimate differs from exact '
                                'estimation: max table gap %.4g, loss %.6g vs exact %.6g'
                                % (tag, gap, l, exact_loss))
        for cl in cliques:
            digest.update(np.round(tabs[cl], 6).tobytes())
        lines.append('%-34s total=%.6f loss=%.6f uniform=%.6f' % (tag, tot, l, l0))

for ln in lines:
    print(ln)
if failures:
    print('FAIL')
    for f in failures:
        print('  -', f)
    sys.exit(1)
print('digest', digest.hexdigest())
print('PASS')
sys.exit(0)

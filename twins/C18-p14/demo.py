"""C18 pair 2 - demonstration.

Site: RegionGraph.build_graph (src/mbi/region_graph.py), construction of the
parent -> child edges of the region graph (the covering relation of the regions).

Checks, for several measurement sets and the oracles convex / approx / pairwise:
  * estimate() completes,
  * every measured clique gets a finite nonnegative table summing to the total,
  * the fit is no worse than the uniform start,
  * CONVEX oracle: any two measured cliques that share attributes agree on the shared
    attributes up to the feasibility tolerance the estimator enforces.  The estimator
    stops its consistency sweeps when the MEAN L1 disagreement over the region-graph
    edges is < 1, so the disagreement of two cliques on their overlap is bounded by the
    number of covering edges of the region poset; that bound (computed here from the
    cliques alone, independently of the library) is used as tolerance.
Exit 0 + PASS + digest when all checks hold, exit 1 + FAIL otherwise.
"""
import os
import sys

if os.environ.get('PYTHONHASHSEED') != '0':
    env = dict(os.environ, PYTHONHASHSEED='0')
    os.execve(sys.executable, [sys.executable] + sys.argv, env)

ROOT = os.path.dirname(os.path.dirname(os.path.dirname(os.path.abspath(__file__))))
sys.path.insert(0, os.path.join(ROOT, 'src'))

import hashlib
import itertools
import warnings
warnings.simplefilter('ignore')
import numpy as np
import mbi
from mbi import Domain, Factor, LocalInference

assert os.path.abspath(mbi.__file__).startswith(ROOT), mbi.__file__

DOM = Domain(['A', 'B', 'C', 'D', 'E'], [3, 4, 2, 3, 2])
ORACLES = ['convex', 'approx', 'pairwise']
TOTAL = 1000.0


def make_measurements(seed, cliques, noise, conflicting=()):
    """Identity measurements of the cliques.  Cliques listed in `conflicting` are
    measured on a second, unrelated dataset, so that the noisy marginals genuinely
    disagree on shared attributes and consistency has to be enforced by the estimator."""
    rng = np.random.RandomState(seed)
    data1 = Factor(DOM, rng.dirichlet(0.2 * np.ones(DOM.size())) * TOTAL)
    data2 = Factor(DOM, rng.dirichlet(0.2 * np.ones(DOM.size())) * TOTAL)
    out = []
    for cl in cliques:
        src = data2 if cl in conflicting else data1
        v = src.project(cl).datavector()
        out.append((np.eye(v.size), v + rng.normal(0, noise, v.size), noise, cl))
    return out


def loss_of(tables, measurements):
    return float(sum(0.5 * np.sum(((Q @ tables[p] - y) / s) ** 2)
                     for Q, y, s, p in measurements))


def uniform_loss(measurements, total):
    tabs = {p: np.ones(Q.shape[1]) * total / Q.shape[1] for Q, y, s, p in measurements}
    return loss_of(tabs, measurements)


def covering_edges(cliques):
    """number of covering pairs in the intersection-closure of the cliques"""
    regions = set(frozenset(c) for c in cliques)
    while True:
        new = set(a & b for a, b in itertools.combinations(regions, 2) if a & b) - regions
        if not new:
            break
        regions |= new
    return sum(1 for a in regions for b in regions
               if b < a and not any(b < c < a for c in regions))


CASES = [
    # name, cliques, noise, cliques measured on the second dataset
    ('chain of pairs', [('A', 'B'), ('B', 'C'), ('C', 'D'), ('D', 'E')], 3.0, ()),
    ('two triples', [('A', 'B', 'C'), ('B', 'C', 'D')], 3.0, [('B', 'C', 'D')]),
    ('triple + pairs, equal overlaps', [('A', 'B', 'C'), ('A', 'D'), ('B', 'E')], 3.0,
     [('A', 'D')]),
    ('triples + pair, overlaps of sizes 2 and 1', [('A', 'B', 'C'), ('B', 'C', 'D'), ('A', 'E')],
     3.0, [('A', 'E')]),
    ('4-way + triple + pair', [('A', 'B', 'C', 'D'), ('A', 'B', 'E'), ('D', 'E')], 3.0,
     [('D', 'E')]),
]

failures = []
digest = hashlib.sha256()
lines = []

for ci, (name, cliques, noise, conflicting) in enumerate(CASES):
    M = make_measurements(40 + ci, cliques, noise, conflicting)
    tol = float(covering_edges(cliques))
    for oracle in ORACLES:
        tag = '%s / %s' % (name, oracle)
        try:
            engine = LocalInference(DOM, iters=300, marginal_oracle=oracle)
            model = engine.estimate(M, total=TOTAL)
            facs = {cl: model.project(cl) for cl in cliques}
        except Exception as e:
            failures.append('%s: estimate raised %s: %s' % (tag, type(e).__name__, e))
            continue
        tabs = {cl: facs[cl].datavector() for cl in cliques}
        for cl in cliques:
            t = tabs[cl]
            if t.shape != (DOM.size(cl),) or not np.all(np.isfinite(t)) or t.min() < 0:
                failures.append('%s: table of %s is not a finite nonnegative vector' % (tag, cl))
            elif abs(t.sum() - TOTAL) > 1e-6 * TOTAL:
                failures.append('%s: table of %s sums to %r, total is %r' % (tag, cl, t.sum(), TOTAL))
        l = loss_of(tabs, M)
        l0 = uniform_loss(M, TOTAL)
        if not l <= l0 * (1 + 1e-9):
            failures.append('%s: fit %.6g is WORSE than the uniform start %.6g' % (tag, l, l0))
        worst = 0.0
        for c1, c2 in itertools.combinations(cliques, 2):
            common = tuple(a for a in c1 if a in c2)
            if common:
                d = np.abs(facs[c1].project(common).datavector()
                           - facs[c2].project(common).datavector()).sum()
                worst = max(worst, d)
                if oracle == 'convex' and d > tol:
                    failures.append('%s: tables of %s and %s DISAGREE on %s: L1 gap %.4g, '
                                    'enforced tolerance %.4g' % (tag, c1, c2, common, d, tol))
        for cl in cliques:
            digest.update(np.round(tabs[cl], 6).tobytes())
        lines.append('%-54s loss=%.6f uniform=%.3f overlap-gap=%.6f (tol %.0f)'
                     % (tag, l, l0, worst, tol))

for ln in lines:
    print(ln)
if failures:
    print('FAIL')
    for f in failures:
        print('  -', f)
    sys.exit(1)
print('digest', digest.hexdigest())
print('PASS')
sys.exit(0)

#!/usr/bin/env python
"""C18 / pair 1 -- the "did the loss go up?" test of LocalInference.mirror_descent_auto.

Checks, for the three marginal oracles, that approximate estimation
  * completes without raising,
  * returns finite, non-negative tables that sum to the total,
  * fits no worse than the uniform start,
  * (convex) keeps overlapping tables within the enforced feasibility tolerance,
  * (disjoint cliques) reaches the optimum of exact estimation,
on ordinary noisy inputs AND on "stationary" inputs whose loss does not move
(measurements already matched by the uniform start, a lone total query, a
clique with a single cell).  Exit 0 + digest on success, exit 1 + FAIL otherwise.
"""
import os, sys

if os.environ.get('PYTHONHASHSEED') != '0':          # set/dict order -> bit-stable digest
    os.environ['PYTHONHASHSEED'] = '0'
    os.execv(sys.executable, [sys.executable] + sys.argv)

ROOT = os.path.dirname(os.path.dirname(os.path.dirname(os.path.abspath(__file__))))
sys.path.insert(0, os.path.join(ROOT, 'src'))
import warnings
warnings.simplefilter('ignore')
import hashlib
import numpy as np
import mbi
from mbi import Domain, LocalInference, FactoredInference, CliqueVector

assert os.path.abspath(mbi.__file__).startswith(ROOT), mbi.__file__
sys.setrecursionlimit(1000)

ORACLES = ['convex', 'approx', 'pairwise']
DOM = Domain(['A', 'B', 'C', 'D', 'E'], [3, 4, 2, 3, 1])
failures, digest = [], []


def noisy(rng, cl, total, noise):
    n = DOM.size(cl)
    p = rng.dirichlet(np.ones(n)) * total
    return (np.eye(n), p + rng.normal(0, noise, n), noise, cl)


def cases():
    rng = np.random.RandomState(7)
    out = []
    # ordinary inputs
    out.append(('cycle', [noisy(rng, cl, 200, 5.0) for cl in
                          [('A', 'B'), ('B', 'C'), ('C', 'D'), ('A', 'D')]], 200.0, False))
    out.append(('disjoint', [noisy(rng, cl, 500, 4.0) for cl in
                             [('A', 'B'), ('C',), ('D',)]], 500.0, True))
    # stationary inputs: the loss cannot change from one iteration to the next
    out.append(('total-query-only', [(np.ones((1, 12)), np.array([300.0]), 2.0, ('A', 'B'))],
                300.0, True))
    out.append(('uniform-answers', [(np.eye(12), np.full(12, 240.0 / 12), 1.0, ('A', 'B')),
                                    (np.eye(2), np.full(2, 120.0), 1.0, ('C',))], 240.0, True))
    out.append(('single-cell-clique', [(np.eye(1), np.array([93.5]), 3.0, ('E',))], 100.0, False))
    return out


def check(name, ms, total, disjoint):
    exact = None
    if disjoint:
        exact = FactoredInference(DOM, iters=800).estimate(ms, total=total)
    for oracle in ORACLES:
        tag = '%s/%s' % (name, oracle)
        eng = LocalInference(DOM, marginal_oracle=oracle, iters=120)
        try:
            model = eng.estimate(ms, total=total)
        except BaseException as e:                       # RecursionError included
            failures.append('%s: estimate raised %s' % (tag, type(e).__name__))
            continue
        loss = eng._marginal_loss(model.marginals)[0]
        unif = eng._marginal_loss(CliqueVector.uniform(DOM, model.cliques) * total)[0]
        if not loss <= unif * (1 + 1e-9) + 1e-9:
            failures.append('%s: loss %.6g worse than uniform start %.6g' % (tag, loss, unif))
        for _, _, _, cl in ms:
            x = model.project(cl).datavector()
            if not (np.isfinite(x).all() and x.min() >= 0 and abs(x.sum() - total) <= 1e-6 * total):
                failures.append('%s: table %s invalid' % (tag, cl))
            if exact is not None:
                gap = np.abs(x - exact.project(cl).datavector()).max()
                if gap > 1e-3 * total:
                    failures.append('%s: %s differs from exact estimation by %.4g' % (tag, cl, gap))
            digest.append('%s %s %s' % (tag, cl, np.round(x, 5).tolist()))
        if oracle == 'convex':
            feas = model.primal_feasibility(model.marginals)
            if not feas < 1.0:
                failures.append('%s: primal feasibility %.4g >= 1' % (tag, feas))
        digest.append('%s loss %.6f' % (tag, loss))


for c in cases():
    check(*c)

if failures:
    print('FAIL')
    for f in failures:
        print('  ' + f)
    print('Approximate estimation must complete on every measurement set; a stalled loss '
          '(l == prev_l) is not a loss increase and must not trigger a restart.')
    sys.exit(1)
print('PASS')
print('cases: %d  lines: %d' % (len(cases()), len(digest)))
print('digest:', hashlib.sha256('\n'.join(digest).encode()).hexdigest())
for line in digest:
    if ' loss ' in line:
        print(line)
sys.exit(0)

#!/usr/bin/env python
"""C18 / pair 2 -- accumulation of the per-clique gradient in LocalInference._marginal_loss.

Checks, for the three marginal oracles, that approximate estimation completes
and returns valid tables (finite, >= 0, summing to the total, fit no worse than
the uniform start, convex: feasible; disjoint cliques: optimum of exact
estimation) on measurement sets in which
  * every clique carries exactly one measurement (ordinary case),
  * the same marginal is measured twice (two rounds, different noise),
  * a marginal and one of its sub-marginals are both measured (under the
    'approx' oracle both land on the same maximal region),
  * the L1 metric / the logging callback path is used on a repeated clique.
Exit 0 + digest on success, exit 1 + FAIL otherwise.
"""
import os, sys

if os.environ.get('PYTHONHASHSEED') != '0':          # set/dict order -> bit-stable digest
    os.environ['PYTHONHASHSEED'] = '0'
    os.execv(sys.executable, [sys.executable] + sys.argv)

ROOT = os.path.dirname(os.path.dirname(os.path.dirname(os.path.abspath(__file__))))
sys.path.insert(0, os.path.join(ROOT, 'src'))
import warnings
warnings.simplefilter('ignore')
import hashlib
import numpy as np
import mbi
from mbi import Domain, LocalInference, FactoredInference, CliqueVector

assert os.path.abspath(mbi.__file__).startswith(ROOT), mbi.__file__

ORACLES = ['convex', 'approx', 'pairwise']
DOM = Domain(['A', 'B', 'C', 'D'], [3, 4, 2, 3])
failures, digest = [], []


def noisy(rng, cl, total, noise, truth=None):
    n = DOM.size(cl)
    p = rng.dirichlet(np.ones(n)) * total if truth is None else truth
    return (np.eye(n), p + rng.normal(0, noise, n), noise, cl), p


def cases():
    rng = np.random.RandomState(11)
    out = []
    out.append(('one-per-clique', [noisy(rng, cl, 200, 5.0)[0] for cl in
                                   [('A', 'B'), ('B', 'C'), ('C', 'D'), ('A', 'D')]], 200.0, False, 'L2'))
    # the same marginal measured in two rounds, the second time more accurately
    m1, p = noisy(rng, ('A', 'B'), 400, 6.0)
    m2, _ = noisy(rng, ('A', 'B'), 400, 2.0, truth=p)
    out.append(('repeated-disjoint', [m1, noisy(rng, ('C',), 400, 3.0)[0], m2], 400.0, True, 'L2'))
    m3, q = noisy(rng, ('B', 'C'), 300, 5.0)
    m4, _ = noisy(rng, ('B', 'C'), 300, 5.0, truth=q)
    out.append(('repeated-overlap', [noisy(rng, ('A', 'B'), 300, 5.0)[0], m3,
                                     noisy(rng, ('C', 'D'), 300, 5.0)[0], m4], 300.0, False, 'L2'))
    out.append(('marginal+submarginal', [noisy(rng, ('A',), 250, 4.0)[0],
                                         noisy(rng, ('A', 'B'), 250, 4.0)[0],
                                         noisy(rng, ('B', 'C'), 250, 4.0)[0]], 250.0, False, 'L2'))
    out.append(('repeated-L1', [m3, noisy(rng, ('A', 'B'), 300, 5.0)[0], m4], 300.0, False, 'L1'))
    return out


def check(name, ms, total, disjoint, metric):
    exact = None
    if disjoint:
        exact = FactoredInference(DOM, iters=800).estimate(ms, total=total)
    for oracle in ORACLES:
        tag = '%s/%s' % (name, oracle)
        eng = LocalInference(DOM, marginal_oracle=oracle, iters=150, metric=metric)
        try:
            model = eng.estimate(ms, total=total)
        except BaseException as e:
            failures.append('%s: estimate raised %s: %s' % (tag, type(e).__name__, e))
            continue
        loss = eng._marginal_loss(model.marginals)[0]
        unif = eng._marginal_loss(CliqueVector.uniform(DOM, model.cliques) * total)[0]
        if not loss <= unif * (1 + 1e-9) + 1e-9:
            failures.append('%s: loss %.6g worse than uniform start %.6g' % (tag, loss, unif))
        for cl in sorted(set(m[3] for m in ms)):
            x = model.project(cl).datavector()
            if not (np.isfinite(x).all() and x.min() >= 0 and abs(x.sum() - total) <= 1e-6 * total):
                failures.append('%s: table %s invalid' % (tag, cl))
            if exact is not None:
                gap = np.abs(x - exact.project(cl).datavector()).max()
                if gap > 1e-3 * total:
                    failures.append('%s: %s differs from exact estimation by %.4g' % (tag, cl, gap))
            digest.append('%s %s %s' % (tag, cl, np.round(x, 5).tolist()))
        if oracle == 'convex':
            feas = model.primal_feasibility(model.marginals)
            if not feas < 1.0:
                failures.append('%s: primal feasibility %.4g >= 1' % (tag, feas))
        digest.append('%s loss %.6f' % (tag, loss))


for c in cases():
    check(*c)

if failures:
    print('FAIL')
    for f in failures:
        print('  ' + f)
    print('Approximate estimation must complete, for every oracle, on measurement sets in which '
          'one model clique receives several measurements.')
    sys.exit(1)
print('PASS')
print('cases: %d  lines: %d' % (len(cases()), len(digest)))
print('digest:', hashlib.sha256('\n'.join(digest).encode()).hexdigest())
for line in digest:
    if ' loss ' in line:
        print(line)
sys.exit(0)

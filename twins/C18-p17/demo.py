"""C18 pair 1 - the starting point of a restarted mirror-descent run.

Checks, for the three marginal oracles, small and large totals (large totals
force several step-halving restarts) and two iteration counts:
  * estimate() completes, every measured table is finite, nonnegative, sums to total
  * the fit is no worse than the uniform start
  * on a disjoint clique family the optimum of exact estimation is attained
"""
import os, sys, warnings, hashlib
if os.environ.get('PYTHONHASHSEED') != '0':          # set iteration order -> float summation order
    os.environ['PYTHONHASHSEED'] = '0'
    os.execv(sys.executable, [sys.executable] + sys.argv)
ROOT = os.path.dirname(os.path.dirname(os.path.dirname(os.path.abspath(__file__))))
sys.path.insert(0, os.path.join(ROOT, 'src'))
warnings.simplefilter('ignore')
import numpy as np
from mbi import Domain, Factor, LocalInference, FactoredInference

dom = Domain(['A', 'B', 'C', 'D', 'E'], [2, 3, 4, 2, 3])
FAMILIES = {
    'chain': [('A', 'B'), ('B', 'C'), ('C', 'D'), ('D', 'E')],
    'disjoint': [('A', 'B'), ('C', 'D'), ('E',)],
}

def problem(cliques, total, seed, noise):
    rng = np.random.RandomState(seed)
    full = rng.rand(*dom.shape) ** 3
    full = Factor(dom, full * total / full.sum())
    meas = []
    for cl in cliques:
        x = full.project(cl).datavector()
        meas.append((np.eye(x.size), x + rng.normal(0, noise, x.size), noise, cl))
    return meas

def fit(tables, meas):
    return sum(0.5 * np.sum(((tables[cl] - y) / n) ** 2) for Q, y, n, cl in meas)

problems, lines = [], []
for fam, cliques in FAMILIES.items():
    for total in [100.0, 1e5]:
        meas = problem(cliques, total, 1, 5.0)
        exact = None
        if fam == 'disjoint':
            ref = FactoredInference(dom, iters=2000, log=False).estimate(meas, total=total)
            exact = fit({cl: ref.project(cl).datavector() for cl in cliques}, meas)
        for oracle in ['convex', 'approx', 'pairwise']:
            for iters in [30, 300]:
                tag = '%s total=%g %s iters=%d' % (fam, total, oracle, iters)
                try:
                    model = LocalInference(dom, marginal_oracle=oracle, iters=iters).estimate(meas, total=total)
                    tabs = {cl: model.project(cl).datavector() for cl in cliques}
                except Exception as e:
                    problems.append('%s: raised %s: %s' % (tag, type(e).__name__, e))
                    continue
                for cl, t in tabs.items():
                    if not (np.isfinite(t).all() and t.min() >= 0 and abs(t.sum() - total) <= 1e-6 * total):
                        problems.append('%s: table %s is not a finite nonnegative table summing to total' % (tag, cl))
                l = fit(tabs, meas)
                u = fit({cl: np.full(y.size, total / y.size) for Q, y, n, cl in meas}, meas)
                if not l <= u:
                    problems.append('%s: fit %.6g is WORSE than the uniform start %.6g' % (tag, l, u))
                if exact is not None and iters == 300 and not l <= exact * (1 + 1e-3) + 1e-6:
                    problems.append('%s: loss %.6g does not reach the exact optimum %.6g' % (tag, l, exact))
                lines.append('%s loss=%.6e' % (tag, l))

if problems:
    print('FAIL')
    for p in problems:
        print('  ' + p)
    sys.exit(1)
print('PASS')
for ln in lines:
    print(ln)
print('digest', hashlib.sha256('\n'.join(lines).encode()).hexdigest()[:16])

"""C18 pair 2 - construction of the marginal oracle in LocalInference._setup.

For EVERY marginal oracle (convex, approx, pairwise), several kinds of total
(python / numpy numbers, or estimated from the measurements) and default
settings, estimation must complete and return, for every measured clique, a
finite nonnegative table summing to the total whose fit is no worse than the
uniform start.
"""
import os, sys, warnings, hashlib
if os.environ.get('PYTHONHASHSEED') != '0':          # set iteration order -> float summation order
    os.environ['PYTHONHASHSEED'] = '0'
    os.execv(sys.executable, [sys.executable] + sys.argv)
ROOT = os.path.dirname(os.path.dirname(os.path.dirname(os.path.abspath(__file__))))
sys.path.insert(0, os.path.join(ROOT, 'src'))
warnings.simplefilter('ignore')
import numpy as np
from mbi import Domain, Factor, LocalInference

dom = Domain(['A', 'B', 'C', 'D'], [2, 3, 4, 2])
cliques = [('A', 'B'), ('B', 'C'), ('C', 'D'), ('A',)]

rng = np.random.RandomState(7)
counts = rng.poisson(12, size=dom.shape)             # an integer histogram
data = Factor(dom, counts.astype(float))
meas = []
for cl in cliques:
    x = data.project(cl).datavector()
    meas.append((np.eye(x.size), x + rng.normal(0, 3.0, x.size), 3.0, cl))

n = counts.sum()                                      # np.int64
TOTALS = [
    ('python float', float(n)),
    ('python int', int(n)),
    ('np.int64 (counts.sum())', n),
    ('estimated (None)', None),
]

def fit(tables):
    return sum(0.5 * np.sum(((tables[cl] - y) / s) ** 2) for Q, y, s, cl in meas)

problems, lines = [], []
for name, total in TOTALS:
    for oracle in ['convex', 'approx', 'pairwise']:
        tag = 'total=%s oracle=%s' % (name, oracle)
        try:
            eng = LocalInference(dom, marginal_oracle=oracle, iters=60)
            model = eng.estimate(meas, total=total)
            tabs = {cl: model.project(cl).datavector() for cl in cliques}
        except Exception as e:
            problems.append('%s: estimate raised %s: %s' % (tag, type(e).__name__, e))
            continue
        tot = float(model.total)
        for cl, t in tabs.items():
            if not (np.isfinite(t).all() and t.min() >= 0 and abs(t.sum() - tot) <= 1e-5 * tot):
                problems.append('%s: table %s is not a finite nonnegative table summing to total' % (tag, cl))
        l = fit(tabs)
        u = fit({cl: np.full(y.size, tot / y.size) for Q, y, s, cl in meas})
        if not l <= u:
            problems.append('%s: fit %.6g is worse than the uniform start %.6g' % (tag, l, u))
        lines.append('%s model.total=%.4f loss=%.5e' % (tag, tot, l))

if problems:
    print('FAIL')
    for p in problems:
        print('  ' + p)
    sys.exit(1)
print('PASS')
for ln in lines:
    print(ln)
print('digest', hashlib.sha256('\n'.join(lines).encode()).hexdigest()[:16])

"""C18 / pair 1 - demo for the nx.transitive_closure -> nx.descendants/ancestors migration
in RegionGraph.build_graph.  Exits 0 + PASS on correct code, 1 + FAIL otherwise."""
import os, sys

ROOT = os.path.dirname(os.path.dirname(os.path.dirname(os.path.dirname(os.path.abspath(__file__)))))
if os.environ.get('PYTHONHASHSEED') != '0':
    # iteration order over the set of regions depends on the string hash seed
    env = dict(os.environ, PYTHONHASHSEED='0')
    env['PYTHONPATH'] = os.path.join(ROOT, 'src') + os.pathsep + env.get('PYTHONPATH', '')
    os.execve(sys.executable, [sys.executable] + sys.argv, env)
sys.path.insert(0, os.path.join(ROOT, 'src'))

import warnings
warnings.filterwarnings('ignore')
import hashlib
import numpy as np
from mbi import Domain, LocalInference, FactoredInference

assert os.path.realpath(sys.modules['mbi'].__file__).startswith(os.path.realpath(ROOT)), 'wrong mbi'

DOM = Domain(['A', 'B', 'C', 'D'], [2, 3, 4, 2])
TOTAL = 1000.0
FEAS_TOL = 8.0      # L1 disagreement (in records) allowed between two measured tables
failures, digest = [], []


def truth(seed):
    p = np.random.RandomState(seed).dirichlet(0.4 * np.ones(DOM.size())).reshape(DOM.shape)
    return p * TOTAL


def marg(P, attrs, of=DOM.attrs):
    drop = tuple(i for i, a in enumerate(of) if a not in attrs)
    kept = [a for a in of if a not in [of[i] for i in drop]]
    x = P.sum(axis=drop) if drop else P
    return np.transpose(x, [kept.index(a) for a in attrs])


def measurements(cliques, seed, sigma):
    rng, P, ms = np.random.RandomState(seed + 1), truth(seed), []
    for cl in cliques:
        y = marg(P, cl).flatten()
        ms.append((np.eye(y.size), y + sigma * rng.randn(y.size), sigma, cl))
    return ms


def loss(tables, ms):
    return sum(0.5 * np.sum(((tables[cl].flatten() - y) / s) ** 2) for _, y, s, cl in ms)


def check(name, cliques, oracle, seed, sigma=5.0, iters=300):
    ms = measurements(cliques, seed, sigma)
    tag = '%s/%s' % (name, oracle)
    try:
        model = LocalInference(DOM, marginal_oracle=oracle, iters=iters).estimate(ms, total=TOTAL)
        tabs = {cl: np.array(model.project(cl).values, dtype=float) for cl in cliques}
    except Exception as e:
        failures.append('%s: raised %s: %s' % (tag, type(e).__name__, e))
        return None
    for cl, t in tabs.items():
        if t.shape != DOM.project(cl).shape or not np.isfinite(t).all() or t.min() < 0:
            failures.append('%s: table %s not a finite nonnegative table' % (tag, cl))
        if abs(t.sum() - TOTAL) > 1e-6 * TOTAL:
            failures.append('%s: table %s sums to %r, total is %r' % (tag, cl, t.sum(), TOTAL))
    unif = {cl: np.full(DOM.project(cl).shape, TOTAL / DOM.size(cl)) for cl in cliques}
    l, l0 = loss(tabs, ms), loss(unif, ms)
    if not l <= l0 * (1 + 1e-9):
        failures.append('%s: loss %.4f worse than the uniform start %.4f' % (tag, l, l0))
    worst = 0.0
    for i, r in enumerate(cliques):
        for s in cliques[:i]:
            common = tuple(a for a in r if a in s)
            if common:
                gap = np.abs(marg(tabs[r], common, r) - marg(tabs[s], common, s)).sum()
                worst = max(worst, gap)
                if oracle == 'convex' and gap > FEAS_TOL:
                    failures.append('%s: tables %s and %s disagree on %s by %.3f records (L1), '
                                    'tolerance %.1f' % (tag, r, s, common, gap, FEAS_TOL))
    digest.append('%s loss=%.4f gap=%.3f ' % (tag, l, worst) +
                  ' '.join('%.3f' % v for cl in cliques for v in tabs[cl].flatten()))
    return tabs, l, ms


CASES = [
    ('chain', [('A', 'B'), ('B', 'C'), ('C', 'D')], 1),
    ('triangle', [('A', 'B'), ('B', 'C'), ('A', 'C')], 2),
    ('star+1way', [('A', 'B'), ('B', 'C'), ('B', 'D'), ('B',)], 3),
    ('3level', [('A', 'B', 'C'), ('B', 'C', 'D'), ('A', 'B'), ('B',), ('C', 'D')], 4),
    ('single', [('A', 'B', 'C')], 5),
]
for name, cliques, seed in CASES:
    for oracle in ['convex', 'approx', 'pairwise']:
        check(name, cliques, oracle, seed)

# exactness clause: disjoint cliques, every oracle must reach the exact optimum
for name, cliques, seed in [('disjoint', [('A', 'B'), ('C', 'D')], 6), ('disjoint3', [('A',), ('B', 'C'), ('D',)], 7)]:
    for oracle in ['convex', 'approx', 'pairwise']:
        res = check(name, cliques, oracle, seed, iters=500)
        if res is None:
            continue
        tabs, l, ms = res
        exact = FactoredInference(DOM, iters=500, warm_start=False).estimate(ms, total=TOTAL, engine='MD')
        ex = {cl: np.array(exact.project(cl).values, dtype=float) for cl in cliques}
        lex = loss(ex, ms)
        dev = max(np.abs(ex[cl] - tabs[cl]).max() for cl in cliques)
        if l > lex + 1e-3 * (1 + lex) or dev > 0.5:
            failures.append('%s/%s: local optimum (loss %.5f) differs from exact (loss %.5f), '
                            'max cell deviation %.4f' % (name, oracle, l, lex, dev))
        digest.append('%s/%s exact-loss=%.4f dev<0.5' % (name, oracle, lex))

if failures:
    print('FAIL')
    for f in failures:
        print('  ' + f)
    sys.exit(1)
print('PASS')
for line in digest:
    print(line)
print('digest', hashlib.sha256('\n'.join(digest).encode()).hexdigest())
sys.exit(0)

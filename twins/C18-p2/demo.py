"""
C18 / pair 2 -- when the measured cliques share no attributes, approximate
(local) estimation attains the same optimum as exact estimation, for every
marginal oracle (convex, approx, pairwise) -- also when one of the cliques is
measured more than once (e.g. re-selected in a later round of an adaptive
mechanism, with another noise scale).

For a family of pairwise-disjoint cliques with identity queries the L2 optimum
is known in closed form: per clique, the Euclidean projection of the
precision-weighted mean of its noisy answers onto {x >= 0, sum x = total}.
The demo compares LocalInference with that optimum and with the exact
estimator (FactoredInference), and checks that the tables are valid.

Exits 0 and prints PASS + a digest when every check holds, exits 1 and prints
FAIL + the offending configurations otherwise.
"""
import os, sys, hashlib, warnings

if os.environ.get('PYTHONHASHSEED') != '0':      # region sets are iterated: pin their order
    os.environ['PYTHONHASHSEED'] = '0'
    os.execv(sys.executable, [sys.executable] + sys.argv)

ROOT = os.path.dirname(os.path.dirname(os.path.dirname(os.path.abspath(__file__))))
sys.path.insert(0, os.path.join(ROOT, 'src'))
warnings.filterwarnings('ignore')

import numpy as np
import mbi
from mbi import Domain, Factor, LocalInference, FactoredInference

assert os.path.abspath(mbi.__file__).startswith(os.path.join(ROOT, 'src')), mbi.__file__

RTOL = 5e-3     # tables must match the optimum up to RTOL * total per cell


def project_simplex(v, total):
    u = np.sort(v)[::-1]
    css = np.cumsum(u) - total
    k = np.arange(1, v.size + 1)
    ok = u - css / k > 0
    tau = css[ok][-1] / k[ok][-1]
    return np.maximum(v - tau, 0.0)


def closed_form_optimum(meas, total):
    acc = {}
    for Q, y, sigma, cl in meas:
        a = acc.setdefault(cl, [0.0, 0.0])
        a[0] = a[0] + y / sigma ** 2
        a[1] = a[1] + 1.0 / sigma ** 2
    return {cl: project_simplex(a[0] / a[1], total) for cl, a in acc.items()}


def make(seed, sizes, plan, total):
    rng = np.random.RandomState(seed)
    attrs = ['A', 'B', 'C', 'D'][:len(sizes)]
    dom = Domain(attrs, sizes)
    p = rng.dirichlet(np.ones(dom.size()) * 0.5)
    x = rng.multinomial(total, p).reshape(dom.shape)
    data = Factor(dom, x.astype(float))
    meas = []
    for cl, sigma in plan:
        y = data.project(cl).datavector()
        y = y + rng.normal(0, sigma, y.size)
        meas.append((np.eye(y.size), y, sigma, cl))
    return dom, meas


def l2_loss(tables, meas):
    return sum(0.5 * np.sum(((Q @ tables[cl] - y) / s) ** 2) for Q, y, s, cl in meas)


AB, CD, A, B, C, D = ('A', 'B'), ('C', 'D'), ('A',), ('B',), ('C',), ('D',)
PLANS = {
    # every clique measured once
    'AB|C':       [(AB, 1.0), (C, 2.0)],
    'AB|CD':      [(AB, 2.0), (CD, 1.0)],
    'A|B|C|D':    [(A, 1.0), (B, 3.0), (C, 2.0), (D, 1.0)],
    # a clique measured twice, with different noise scales
    'AB,AB|C':    [(AB, 1.0), (AB, 3.0), (C, 2.0)],
    'A|B,B|C':    [(A, 1.0), (B, 4.0), (B, 2.0), (C, 1.0)],
    'AB|CD,CD':   [(AB, 2.0), (CD, 1.0), (CD, 1.0)],
}
CONFIGS = []
for seed, (name, total) in enumerate([('AB|C', 100), ('AB|CD', 10000), ('A|B|C|D', 1000),
                                      ('AB,AB|C', 100), ('A|B,B|C', 10000), ('AB|CD,CD', 5000)]):
    # (the pairwise oracle double-counts a repeated clique in its messages and is left out for those)
    for oracle in ['convex', 'approx', 'pairwise'][:2 if ',' in name else 3]:
        CONFIGS.append((seed + 3, name, total, oracle, 600))

failures = []
lines = []
EXACT = {}
for seed, name, total, oracle, iters in CONFIGS:
    tag = 'seed=%d family=%s total=%g oracle=%s iters=%d' % (seed, name, total, oracle, iters)
    plan = PLANS[name]
    dom, meas = make(seed, [3, 4, 2, 3], plan, total)
    cliques = sorted(set(cl for cl, _ in plan))
    best = closed_form_optimum(meas, total)
    try:
        local = LocalInference(dom, iters=iters, marginal_oracle=oracle).estimate(meas, total=total)
        tables = {cl: local.project(cl).datavector() for cl in cliques}
    except Exception as e:
        failures.append('%s: raised %r' % (tag, e))
        continue
    if (seed, name) not in EXACT:
        exact = FactoredInference(dom, iters=1000).estimate(meas, total=total)
        EXACT[seed, name] = {cl: exact.project(cl).datavector() for cl in cliques}
    exact_tables = EXACT[seed, name]
    uniform = {cl: np.ones(dom.size(cl)) * total / dom.size(cl) for cl in cliques}

    bad = False
    for cl, t in tables.items():
        if not np.all(np.isfinite(t)) or t.min() < 0 or abs(t.sum() - total) > 1e-6 * total:
            failures.append('%s: table %s is not a valid table summing to the total' % (tag, cl))
            bad = True
    if bad:
        continue
    fit, fit_exact, fit_best, fit0 = [l2_loss(t, meas) for t in (tables, exact_tables, best, uniform)]
    if not fit <= fit0 * (1 + 1e-9):
        failures.append('%s: fit %r is worse than the uniform start %r' % (tag, fit, fit0))
    err_best = max(np.abs(tables[cl] - best[cl]).max() for cl in cliques)
    err_exact = max(np.abs(tables[cl] - exact_tables[cl]).max() for cl in cliques)
    if err_best > RTOL * total or err_exact > RTOL * total:
        worst = max(cliques, key=lambda cl: np.abs(tables[cl] - best[cl]).max())
        failures.append('%s: local estimate is not the optimum: clique %s is off by %.4g (vs closed form) / '
                        '%.4g (vs exact estimation), tolerance %.4g; loss local=%.6g exact=%.6g optimum=%.6g'
                        % (tag, worst, err_best, err_exact, RTOL * total, fit, fit_exact, fit_best))

    h = hashlib.sha256()
    for cl in cliques:
        h.update(np.round(tables[cl], 4).tobytes())
    lines.append('%s | fit=%.5f exact=%.5f optimum=%.5f uniform=%.5f tables=%s' % (
        tag, fit, fit_exact, fit_best, fit0, h.hexdigest()[:16]))

if failures:
    print('FAIL')
    for f in failures:
        print('  ' + f)
    sys.exit(1)

print('PASS')
for ln in lines:
    print(ln)
print('digest', hashlib.sha256('\n'.join(lines).encode()).hexdigest())
sys.exit(0)

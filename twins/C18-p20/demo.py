"""C18 / pair 1 - sums of BP messages in FactorGraph.loopy_belief_propagation.

Runs LocalInference under every marginal oracle on several measurement sets,
among them sets that leave one attribute of the domain unmeasured, and checks
the clauses of property C18:
  * estimation completes without error,
  * every measured clique gets a finite, nonnegative table summing to total,
  * the fit is no worse than the uniform start,
  * (convex oracle) overlapping tables agree up to the feasibility tolerance,
  * (disjoint cliques) the tables coincide with exact estimation.
Prints PASS + a digest and exits 0, or FAIL + explanation and exits 1.
"""
import os, sys, hashlib, traceback, warnings

ROOT = os.path.dirname(os.path.dirname(os.path.dirname(os.path.abspath(__file__))))
if os.environ.get('PYTHONHASHSEED') != '0':          # deterministic set order
    env = dict(os.environ, PYTHONHASHSEED='0')
    env['PYTHONPATH'] = os.path.join(ROOT, 'src') + os.pathsep + env.get('PYTHONPATH', '')
    os.execve(sys.executable, [sys.executable] + sys.argv, env)
sys.path.insert(0, os.path.join(ROOT, 'src'))
warnings.filterwarnings('ignore')

import numpy as np
import mbi
from mbi import Domain, LocalInference, FactoredInference

assert os.path.abspath(mbi.__file__).startswith(os.path.join(ROOT, 'src')), mbi.__file__

ORACLES = ['convex', 'approx', 'pairwise']
ITERS = 400
failures, digest_lines = [], []


def measure(dom, cl, rng, total, noise):
    n = dom.size(cl)
    truth = rng.dirichlet(np.ones(n)) * total
    return (np.eye(n), truth + rng.normal(0, noise, n), noise, cl)


def loss_of(meas, tables):
    return sum(0.5 * np.sum(((Q @ tables[cl] - y) / s) ** 2) for Q, y, s, cl in meas)


def scenario(name, attrs, shape, cliques, total, seed, disjoint):
    dom = Domain(attrs, shape)
    rng = np.random.RandomState(seed)
    meas = [measure(dom, cl, rng, total, 1.0 + 0.5 * i) for i, cl in enumerate(cliques)]
    uniform = {cl: np.ones(dom.size(cl)) * total / dom.size(cl) for cl in cliques}
    l_unif = loss_of(meas, uniform)
    exact = None
    if disjoint:
        ex = FactoredInference(dom, iters=3000).estimate(meas, total=total)
        exact = {cl: ex.project(cl).datavector() for cl in cliques}
    for oracle in ORACLES:
        tag = '%s/%s' % (name, oracle)
        try:
            model = LocalInference(dom, marginal_oracle=oracle, iters=ITERS).estimate(meas, total=total)
            tables = {cl: model.project(cl).datavector() for cl in cliques}
        except Exception as e:
            failures.append('%s: estimation raised %s: %s' % (tag, type(e).__name__, e))
            traceback.print_exc(limit=3, file=sys.stdout)
            continue
        for cl, t in tables.items():
            if not np.all(np.isfinite(t)) or t.min() < 0:
                failures.append('%s: table %s not finite / nonnegative' % (tag, cl))
            if abs(t.sum() - total) > 1e-6 * total:
                failures.append('%s: table %s sums to %r, total is %r' % (tag, cl, t.sum(), total))
        l = loss_of(meas, tables)
        if not l <= l_unif * (1 + 1e-9):
            failures.append('%s: loss %.6g worse than uniform start %.6g' % (tag, l, l_unif))
        if oracle == 'convex':
            for i, r in enumerate(cliques):
                for s in cliques[:i]:
                    d = tuple(sorted(set(r) & set(s)))
                    if d:
                        gap = np.abs(model.project(r).project(d).datavector()
                                     - model.project(s).project(d).datavector()).sum()
                        if gap > 2.0:
                            failures.append('%s: %s and %s disagree on %s by %.4g' % (tag, r, s, d, gap))
        if exact is not None:
            err = max(np.abs(tables[cl] - exact[cl]).max() for cl in cliques)
            if err > 5e-3 * total:
                failures.append('%s: differs from exact estimation by %.4g' % (tag, err))
        digest_lines.append(tag + ' loss=%.5f ' % l + ' '.join(
            ','.join('%.4f' % x for x in tables[cl]) for cl in cliques))


# every attribute measured
scenario('chain', 'ABC', (2, 3, 2), [('A', 'B'), ('B', 'C')], 100.0, 1, False)
scenario('triangle', 'ABC', (2, 2, 3), [('A', 'B'), ('B', 'C'), ('A', 'C'), ('B',)], 250.0, 2, False)
scenario('disjoint', 'ABCD', (2, 3, 2, 3), [('A', 'B'), ('C', 'D')], 100.0, 3, True)
scenario('oneway', 'ABC', (3, 2, 4), [('A',), ('B',), ('C',)], 60.0, 4, True)
# one attribute of the domain appears in no measured clique
scenario('chain+free', 'ABCDE', (2, 3, 2, 3, 2), [('A', 'B'), ('B', 'C'), ('D',)], 100.0, 5, False)
scenario('disjoint+free', 'ABCDE', (2, 3, 2, 2, 3), [('A', 'B'), ('D',)], 80.0, 6, True)
scenario('single+free', 'AB', (4, 3), [('B',)], 40.0, 7, True)

if failures:
    print('FAIL')
    for f in failures:
        print('  -', f)
    sys.exit(1)
print('PASS')
for line in digest_lines:
    print(line)
print('digest', hashlib.sha256('\n'.join(digest_lines).encode()).hexdigest())
sys.exit(0)

"""C18 pair1 demo: L1 metric of LocalInference._marginal_loss (merged L1/L2 tail)."""
import os, sys, hashlib
ROOT = os.path.dirname(os.path.dirname(os.path.dirname(os.path.abspath(__file__))))
sys.path.insert(0, os.path.join(ROOT, 'src'))
import numpy as np
from mbi import Domain
from mbi.local_inference import LocalInference

def make(seed, cliques, sizes, total, noise, skew):
    prng = np.random.RandomState(seed)
    dom = Domain(list(sizes.keys()), list(sizes.values()))
    meas = []
    for cl in cliques:
        n = dom.size(cl)
        p = prng.dirichlet(np.ones(n) * skew)
        y = total * p + prng.laplace(0, noise, n)
        meas.append((np.eye(n), y, noise, cl))
    return dom, meas

def l1_fit(meas, tables):
    return sum(np.abs(Q @ tables[i] - y).sum() / s for i, (Q, y, s, cl) in enumerate(meas))

CASES = [
    # name, cliques, sizes, total, noise, skew, oracle, metric, iters
    ('L2-convex-chain', [('A','B'),('B','C')], dict(A=2,B=3,C=2), 100.0, 1.0, 5.0, 'convex', 'L2', 60),
    ('L2-pairwise-disjoint', [('A','B'),('C',)], dict(A=2,B=3,C=2), 100.0, 1.0, 5.0, 'pairwise', 'L2', 60),
    ('L1-convex-chain', [('A','B'),('B','C')], dict(A=2,B=3,C=2), 100.0, 1.0, 50.0, 'convex', 'L1', 60),
    ('L1-approx-chain', [('A','B'),('B','C')], dict(A=2,B=3,C=2), 100.0, 1.0, 50.0, 'approx', 'L1', 60),
    ('L1-pairwise-disjoint', [('A','B'),('C',)], dict(A=2,B=3,C=2), 100.0, 1.0, 50.0, 'pairwise', 'L1', 60),
    ('L1-convex-smallnoise', [('A','B'),('B','C')], dict(A=3,B=3,C=3), 1000.0, 0.5, 50.0, 'convex', 'L1', 80),
]

def main():
    ok = True
    lines = []
    for k, (name, cliques, sizes, total, noise, skew, oracle, metric, iters) in enumerate(CASES):
        dom, meas = make(100 + k, cliques, sizes, total, noise, skew)
        eng = LocalInference(dom, metric=metric, iters=iters, marginal_oracle=oracle)
        try:
            model = eng.estimate(meas, total=total)
        except Exception as e:
            print('FAIL %s: estimate raised %r' % (name, e)); ok = False; continue
        tabs = [model.project(cl).datavector() for cl in cliques]
        unif = [np.ones(dom.size(cl)) * total / dom.size(cl) for cl in cliques]
        fit, fit0 = l1_fit(meas, tabs), l1_fit(meas, unif)
        for cl, t in zip(cliques, tabs):
            if not (np.all(np.isfinite(t)) and np.all(t >= 0) and abs(t.sum() - total) <= 1e-6 * total):
                print('FAIL %s: table of %s invalid (sum %r)' % (name, cl, t.sum())); ok = False
        if not fit <= fit0 * (1 + 1e-9):
            print('FAIL %s: L1 fit %.4f is worse than the uniform start %.4f' % (name, fit, fit0)); ok = False
        lines.append('%s fit=%.6f uniform=%.6f %s' % (name, fit, fit0,
                     ' '.join('%.5f' % v for t in tabs for v in t)))
    for ln in lines: print(ln)
    if not ok:
        print('FAIL'); sys.exit(1)
    print('PASS', hashlib.sha256('\n'.join(lines).encode()).hexdigest()[:16])

if __name__ == '__main__':
    main()

"""
C18 / pair 1 -- LocalInference._setup: assignment of measurements to model cliques.

Clauses exercised:
  * every measured clique gets a finite, nonnegative table summing to the total
  * the fit (sum of 0.5*||(Q x - y)/sigma||^2 over ALL measurements, evaluated on
    model.project(clique)) is no worse than that of the uniform start
  * convex oracle: feasibility below the tolerance enforced by the estimator (1.0)
  * disjoint cliques: same optimum as exact estimation (FactoredInference)

The scenario the breaking change needs: marginal_oracle='approx' and a measured
clique that is strictly contained in another measured clique without being the
intersection of two maximal cliques (here ('A',) inside ('A','B')), with the small
clique measured precisely and the large one measured noisily.
"""
import os, sys

if os.environ.get('PYTHONHASHSEED') != '0':
    # set iteration order of region tuples depends on string hashing: pin it
    os.environ['PYTHONHASHSEED'] = '0'
    os.execv(sys.executable, [sys.executable] + sys.argv)

ROOT = os.path.dirname(os.path.dirname(os.path.dirname(os.path.abspath(__file__))))
sys.path.insert(0, os.path.join(ROOT, 'src'))

import warnings
warnings.filterwarnings('ignore')
import hashlib
import numpy as np
import mbi
assert os.path.abspath(mbi.__file__).startswith(os.path.join(ROOT, 'src')), mbi.__file__
from mbi import Domain, Factor, LocalInference, FactoredInference

ORACLES = ['convex', 'approx', 'pairwise']


def measure(domain, cliques, table, sigmas, seed):
    """ identity measurements of the marginals of `table` with per-clique noise """
    rng = np.random.RandomState(seed)
    P = Factor(domain, table)
    meas = []
    for cl, s in zip(cliques, sigmas):
        x = P.project(cl).datavector()
        meas.append((np.eye(x.size), x + rng.normal(0, s, x.size), s, cl))
    return meas


def fit(tables, meas):
    return sum(0.5 * np.sum(((Q @ tables[cl] - y) / s) ** 2) for Q, y, s, cl in meas)


def run(name, domain, cliques, table, sigmas, total, seed, iters, exact=False):
    meas = measure(domain, cliques, table, sigmas, seed)
    uniform = {cl: np.ones(domain.size(cl)) * total / domain.size(cl) for cl in cliques}
    l_unif = fit(uniform, meas)
    ref = None
    if exact:
        ref = FactoredInference(domain, iters=3000).estimate(meas, total=total)
    problems, lines = [], []
    for oracle in ORACLES:
        tag = '%s/%s' % (name, oracle)
        try:
            engine = LocalInference(domain, iters=iters, marginal_oracle=oracle)
            model = engine.estimate(meas, total=total)
            tables = {cl: model.project(cl).datavector() for cl in cliques}
        except Exception as e:
            problems.append('%s: raised %r' % (tag, e))
            continue
        for cl in cliques:
            t = tables[cl]
            if not np.isfinite(t).all() or (t < 0).any():
                problems.append('%s: table of %s not finite/nonnegative' % (tag, cl))
            if abs(t.sum() - total) > 1e-6 * total:
                problems.append('%s: table of %s sums to %r, total is %r' % (tag, cl, t.sum(), total))
        l_fin = fit(tables, meas)
        if not l_fin <= l_unif * (1 + 1e-9):
            problems.append('%s: fit got WORSE than the uniform start: loss %.4f > %.4f (uniform)'
                            % (tag, l_fin, l_unif))
        if oracle == 'convex':
            f = model.primal_feasibility(model.marginals)
            if not f < 1.0:
                problems.append('%s: feasibility %.4f not below the enforced tolerance 1.0' % (tag, f))
        if ref is not None:
            gap = max(np.abs(tables[cl] - ref.project(cl).datavector()).max() for cl in cliques)
            if gap > 1e-3 * total:
                problems.append('%s: differs from exact estimation by %.4f' % (tag, gap))
        lines.append('%s uniform=%.5g final=%.5g %s' % (
            tag, l_unif, l_fin, ' '.join('%.4f' % v for cl in cliques for v in tables[cl])))
    return problems, lines


def main():
    problems, lines = [], []

    # 1. chain of pairs
    d1 = Domain(['A', 'B', 'C', 'D'], [3, 4, 2, 5])
    t1 = np.random.RandomState(1).dirichlet(np.ones(d1.size()) * 0.4) * 1000
    p, l = run('chain', d1, [('A', 'B'), ('B', 'C'), ('C', 'D')], t1, [5.0, 5.0, 5.0], 1000.0, 11, 300)
    problems += p; lines += l

    # 2. disjoint cliques: local == exact
    t2 = np.random.RandomState(2).dirichlet(np.ones(d1.size()) * 0.4) * 500
    p, l = run('disjoint', d1, [('A', 'B'), ('C', 'D')], t2, [4.0, 8.0], 500.0, 12, 1000, exact=True)
    problems += p; lines += l

    # 3. nested cliques, skewed data, equal noise
    d3 = Domain(['A', 'B', 'C'], [4, 5, 3])
    t3 = np.random.RandomState(3).dirichlet(np.ones(d3.size()) * 0.4) * 2000
    p, l = run('nested', d3, [('A',), ('A', 'B'), ('B', 'C')], t3, [10.0, 10.0, 10.0], 2000.0, 13, 300)
    problems += p; lines += l

    # 4. nested cliques, flat data: the one-way marginal on A is known almost exactly,
    #    the two-way marginal on (A,B) is very noisy
    t4 = np.ones(d3.size()) * 2000 / d3.size()
    p, l = run('nested-flat', d3, [('A',), ('A', 'B'), ('B', 'C')], t4, [0.5, 40.0, 10.0], 2000.0, 14, 300)
    problems += p; lines += l

    # 5. same, but the small clique is also a separator (it is a region for every oracle)
    p, l = run('separator', d3, [('B',), ('A', 'B'), ('B', 'C')], t4, [0.5, 40.0, 10.0], 2000.0, 15, 300)
    problems += p; lines += l

    if problems:
        print('FAIL')
        for q in problems:
            print('  ' + q)
        print('A measurement was not attributed to any clique of the model, so the estimate '
              'ignores it: the returned tables fit the measurements worse than the uniform start.')
        sys.exit(1)
    print('PASS')
    for q in lines:
        print(q)
    print('digest', hashlib.sha256('\n'.join(lines).encode()).hexdigest())
    sys.exit(0)


if __name__ == '__main__':
    main()

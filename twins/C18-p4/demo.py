"""
C18 / pair 2 -- RegionGraph.build_graph: order in which the downward messages are sent.

Clauses exercised:
  * estimation completes without error for EVERY marginal oracle
  * every measured clique gets a finite, nonnegative table summing to the total
  * fit no worse than the uniform start; convex oracle: feasibility below 1.0
  * disjoint cliques: same optimum as exact estimation (FactoredInference)

The scenario the breaking change needs: marginal_oracle='approx' (generalized belief
propagation) on a region graph with at least three levels in which some message
divides by a message of the same sweep (RegionGraph.D non-empty), e.g. the chain of
triples (A,B,C), (B,C,D), (C,D,E) whose regions are the triples, (B,C), (C,D) and (C,).
Two-level region graphs (pairs, stars) never have such a dependency.
"""
import os, sys

if os.environ.get('PYTHONHASHSEED') != '0':
    # set iteration order of region tuples depends on string hashing: pin it
    os.environ['PYTHONHASHSEED'] = '0'
    os.execv(sys.executable, [sys.executable] + sys.argv)

ROOT = os.path.dirname(os.path.dirname(os.path.dirname(os.path.abspath(__file__))))
sys.path.insert(0, os.path.join(ROOT, 'src'))

import warnings
warnings.filterwarnings('ignore')
import hashlib
import numpy as np
import mbi
assert os.path.abspath(mbi.__file__).startswith(os.path.join(ROOT, 'src')), mbi.__file__
from mbi import Domain, Factor, LocalInference, FactoredInference

ORACLES = ['convex', 'approx', 'pairwise']


def measure(domain, cliques, table, sigmas, seed):
    """ identity measurements of the marginals of `table` with per-clique noise """
    rng = np.random.RandomState(seed)
    P = Factor(domain, table)
    meas = []
    for cl, s in zip(cliques, sigmas):
        x = P.project(cl).datavector()
        meas.append((np.eye(x.size), x + rng.normal(0, s, x.size), s, cl))
    return meas


def fit(tables, meas):
    return sum(0.5 * np.sum(((Q @ tables[cl] - y) / s) ** 2) for Q, y, s, cl in meas)


def run(name, domain, cliques, table, sigmas, total, seed, iters, exact=False):
    meas = measure(domain, cliques, table, sigmas, seed)
    uniform = {cl: np.ones(domain.size(cl)) * total / domain.size(cl) for cl in cliques}
    l_unif = fit(uniform, meas)
    ref = None
    if exact:
        ref = FactoredInference(domain, iters=3000).estimate(meas, total=total)
    problems, lines = [], []
    for oracle in ORACLES:
        tag = '%s/%s' % (name, oracle)
        try:
            engine = LocalInference(domain, iters=iters, marginal_oracle=oracle)
            model = engine.estimate(meas, total=total)
            tables = {cl: model.project(cl).datavector() for cl in cliques}
        except Exception as e:
            problems.append('%s: raised %r' % (tag, e))
            continue
        for cl in cliques:
            t = tables[cl]
            if not np.isfinite(t).all() or (t < 0).any():
                problems.append('%s: table of %s not finite/nonnegative' % (tag, cl))
            if abs(t.sum() - total) > 1e-6 * total:
                problems.append('%s: table of %s sums to %r, total is %r' % (tag, cl, t.sum(), total))
        l_fin = fit(tables, meas)
        if not l_fin <= l_unif * (1 + 1e-9):
            problems.append('%s: fit got WORSE than the uniform start: loss %.4f > %.4f (uniform)'
                            % (tag, l_fin, l_unif))
        if oracle == 'convex':
            f = model.primal_feasibility(model.marginals)
            if not f < 1.0:
                problems.append('%s: feasibility %.4f not below the enforced tolerance 1.0' % (tag, f))
        if ref is not None:
            gap = max(np.abs(tables[cl] - ref.project(cl).datavector()).max() for cl in cliques)
            if gap > 1e-3 * total:
                problems.append('%s: differs from exact estimation by %.4f' % (tag, gap))
        lines.append('%s uniform=%.5g final=%.5g %s' % (
            tag, l_unif, l_fin, ' '.join('%.4f' % v for cl in cliques for v in tables[cl])))
    return problems, lines


def main():
    problems, lines = [], []
    d = Domain(['A', 'B', 'C', 'D', 'E'], [3, 4, 2, 5, 3])
    table = lambda seed, total: np.random.RandomState(seed).dirichlet(np.ones(d.size()) * 0.4) * total

    # 1. chain of pairs: two-level region graph
    cl = [('A', 'B'), ('B', 'C'), ('C', 'D'), ('D', 'E')]
    p, l = run('pairs', d, cl, table(1, 1000), [5.0] * 4, 1000.0, 21, 300)
    problems += p; lines += l

    # 2. disjoint cliques: local == exact
    cl = [('A', 'B'), ('C', 'D', 'E')]
    p, l = run('disjoint', d, cl, table(2, 500), [4.0, 6.0], 500.0, 22, 1000, exact=True)
    problems += p; lines += l

    # 3. triples sharing one pair and one attribute: three levels, but no message
    #    depends on another message of the same sweep
    cl = [('A', 'B', 'C'), ('B', 'C', 'D'), ('C', 'E')]
    p, l = run('star', d, cl, table(3, 1000), [5.0] * 3, 1000.0, 23, 200)
    problems += p; lines += l

    # 4. chain of triples: (B,C,D)->(B,C) divides by (C,D)->(C,) of the same sweep
    cl = [('A', 'B', 'C'), ('B', 'C', 'D'), ('C', 'D', 'E')]
    p, l = run('triples', d, cl, table(4, 1000), [5.0] * 3, 1000.0, 24, 200)
    problems += p; lines += l

    # 5. cycle of pairs plus a triple on top of two of them
    cl = [('A', 'B'), ('B', 'C'), ('A', 'B', 'C'), ('C', 'D'), ('A', 'D')]
    p, l = run('mixed', d, cl, table(5, 800), [5.0] * 5, 800.0, 25, 200)
    problems += p; lines += l

    if problems:
        print('FAIL')
        for q in problems:
            print('  ' + q)
        print('Approximate estimation must complete for every oracle; the generalized belief '
              'propagation sweep used a message before it was sent.')
        sys.exit(1)
    print('PASS')
    for q in lines:
        print(q)
    print('digest', hashlib.sha256('\n'.join(lines).encode()).hexdigest())
    sys.exit(0)


if __name__ == '__main__':
    main()

"""
C18 / pair 1 -- Factor.__iadd__ fast path (src/mbi/factor.py)

LocalInference accumulates the gradient of every measurement into the table of the model
clique the measurement was assigned to with  `gradient[cl] += Factor(mu2.domain, grad)`.
The measurement's own attribute order (`proj`) need not be the order of the model clique
`cl`; Factor.__iadd__ is what re-aligns the axes.

The demo runs approximate estimation on several measurement sets and all three oracles
and checks the clauses of property C18:
   * estimation completes without an exception,
   * every measured clique gets a finite, non-negative table that sums to the total,
   * the fit is no worse than the uniform start,
   * convex oracle: the enforced feasibility tolerance (< 1.0) holds on return,
   * when nothing is relaxed (no two distinct regions are tied by a consistency
     constraint) the result is the exact optimum, which the demo computes independently
     as a Euclidean projection onto the scaled simplex.

exit 0 + "PASS" + digest  : all checks hold
exit 1 + "FAIL" + reasons : some check is violated
"""
import os
import sys

if os.environ.get('PYTHONHASHSEED') != '0':
    # RegionGraph iterates over sets of tuples of str; pin the hash seed so that the
    # digest is reproducible from run to run.
    os.environ['PYTHONHASHSEED'] = '0'
    os.execv(sys.executable, [sys.executable] + sys.argv)

ROOT = os.path.dirname(os.path.dirname(os.path.dirname(os.path.abspath(__file__))))
sys.path.insert(0, os.path.join(ROOT, 'src'))

import hashlib
import warnings
warnings.simplefilter('ignore')
import numpy as np

import mbi
if not os.path.abspath(mbi.__file__).startswith(os.path.join(ROOT, 'src')):
    print('ERROR: mbi imported from', mbi.__file__, 'instead of', os.path.join(ROOT, 'src'))
    sys.exit(2)
from mbi import Domain, Factor, LocalInference

ORACLES = ['convex', 'approx', 'pairwise']
failures = []
digest_lines = []


def synth(domain, spec, total, seed):
    """ spec: list of (clique, noise).  Identity queries on a random distribution. """
    rng = np.random.RandomState(seed)
    p = rng.dirichlet(0.3 * np.ones(domain.size())) * total
    P = Factor(domain, p)
    ms = []
    for cl, noise in spec:
        x = P.project(cl).datavector()
        ms.append((np.eye(x.size), x + rng.normal(0, noise, x.size), noise, cl))
    return ms


def project_simplex(v, total):
    """ Euclidean projection of v onto { x >= 0, sum(x) = total } """
    u = np.sort(v)[::-1]
    css = np.cumsum(u) - total
    k = np.arange(1, v.size + 1)
    cond = u - css / k > 0
    tau = css[cond][-1] / k[cond][-1]
    return np.maximum(v - tau, 0)


def external_loss(model, ms):
    loss = 0.0
    for Q, y, noise, cl in ms:
        x = model.project(cl).datavector()
        loss += 0.5 * np.sum((Q @ x - y) ** 2) / noise ** 2
    return loss


def uniform_loss(domain, ms, total):
    loss = 0.0
    for Q, y, noise, cl in ms:
        x = np.ones(domain.size(cl)) * total / domain.size(cl)
        loss += 0.5 * np.sum((Q @ x - y) ** 2) / noise ** 2
    return loss


def exact_optimum(domain, ms, total):
    """ Exact optimum for measurement sets in which every attribute set is measured on its own
    (possibly several times, possibly with the attributes listed in a different order):
    the precision-weighted mean of the answers, aligned to the first listed order, projected
    on the simplex.  Returns { frozenset(attrs) : (order, table) } """
    acc = {}
    for Q, y, noise, cl in ms:
        key = frozenset(cl)
        w = 1.0 / noise ** 2
        if key not in acc:
            acc[key] = [cl, np.zeros(domain.project(cl).shape), 0.0]
        order = acc[key][0]
        yy = Factor(domain.project(cl), y).transpose(order).values   # Factor.transpose: no in-place ops
        acc[key][1] = acc[key][1] + w * yy
        acc[key][2] += w
    out = {}
    for key, (order, s, w) in acc.items():
        out[key] = (order, project_simplex((s / w).flatten(), total).reshape(s.shape))
    return out


def run_case(name, domain, spec, total, seed, iters, exact=False):
    for oracle in ORACLES:
        tag = '%s/%s' % (name, oracle)
        ms = synth(domain, spec, 1000.0 if total is None else total, seed)
        try:
            engine = LocalInference(domain, marginal_oracle=oracle, iters=iters)
            model = engine.estimate(ms, total=total)
        except Exception as e:
            failures.append('%s: estimate raised %s: %s' % (tag, type(e).__name__, str(e)[:90]))
            digest_lines.append('%s EXC' % tag)
            continue
        T = model.total
        h = hashlib.sha256()
        for Q, y, noise, cl in ms:
            x = model.project(cl).datavector()
            if x.size != domain.size(cl) or not np.all(np.isfinite(x)):
                failures.append('%s: table of %s is not finite' % (tag, cl))
            elif x.min() < 0:
                failures.append('%s: table of %s has negative entries' % (tag, cl))
            elif abs(x.sum() - T) > 1e-6 * T:
                failures.append('%s: table of %s sums to %r, total is %r' % (tag, cl, x.sum(), T))
            h.update(np.round(x, 5).tobytes())
        loss = external_loss(model, ms)
        uni = uniform_loss(domain, ms, T)
        if not loss <= uni * (1 + 1e-9):
            failures.append('%s: fit %.4f is worse than the uniform start %.4f' % (tag, loss, uni))
        if oracle == 'convex':
            feas = model.primal_feasibility(model.marginals)
            if not feas < 1.0:
                failures.append('%s: feasibility %.4f on return, tolerance is 1.0' % (tag, feas))
        line = '%s total=%.5f loss=%.6f uniform=%.6f' % (tag, T, loss, uni)
        if exact and oracle in exact:
            ref = exact_optimum(domain, ms, T)
            dist = 0.0
            for key, (order, table) in ref.items():
                got = model.project(order).values
                dist = max(dist, np.abs(got - table).sum())
            if dist > 1e-3 * T:
                failures.append('%s: nothing is relaxed here, yet the tables are %.3f (L1) away from the '
                                'exact optimum (total %.1f)' % (tag, dist, T))
            line += ' exact_gap_ok=%s' % (dist <= 1e-3 * T)
        digest_lines.append(line + ' tables=' + h.hexdigest()[:16])


square = Domain(['A', 'B', 'C', 'D'], [3, 3, 2, 4])
oblong = Domain(['A', 'B', 'C', 'D'], [3, 4, 2, 5])

# 1. ordinary overlapping workloads
run_case('chain', oblong, [(('A', 'B'), 10.0), (('B', 'C'), 10.0), (('C', 'D'), 10.0)], 1000.0, 1, 300)
run_case('nested', oblong, [(('A', 'B', 'C'), 10.0), (('B', 'A'), 10.0), (('C',), 5.0), (('C', 'D'), 10.0)], 500.0, 2, 300)
# 2. disjoint cliques: local == global, result must be the exact optimum for every oracle
run_case('disjoint', oblong, [(('A', 'B'), 10.0), (('C', 'D'), 20.0)], 1000.0, 3, 400, exact=ORACLES)
run_case('disjoint-reversed', oblong, [(('B', 'A'), 10.0), (('D', 'C'), 20.0)], 1000.0, 4, 400, exact=ORACLES)
run_case('disjoint-total-None', oblong, [(('A', 'B'), 10.0), (('C', 'D'), 20.0)], None, 5, 400, exact=ORACLES)
run_case('disjoint-repeated', oblong, [(('A', 'B'), 10.0), (('A', 'B'), 30.0), (('C', 'D'), 20.0)], 1000.0, 6, 400,
         exact=['convex', 'approx'])
# 3. the same marginal answered twice, the second time with its attributes listed the other way
#    round (e.g. two workload files that name the pair differently).  The region graphs hold two
#    unconnected regions for it, so nothing is relaxed and convex/approx must return the exact
#    optimum; the factor graph couples the two factors through A and B, so for 'pairwise' only
#    validity is checked.
run_case('two-orders-square', square, [(('A', 'B'), 20.0), (('B', 'A'), 30.0), (('C', 'D'), 20.0)], 1000.0, 7, 400,
         exact=['convex', 'approx'])
run_case('two-orders-oblong', oblong, [(('A', 'B'), 20.0), (('B', 'A'), 30.0), (('C', 'D'), 20.0)], 1000.0, 8, 400,
         exact=['convex', 'approx'])

if failures:
    print('FAIL')
    for f in failures:
        print('  -', f)
    sys.exit(1)
print('PASS')
for line in digest_lines:
    print(line)
sys.exit(0)

"""
C18 / pair 2 -- memoised upward-message weights of the convex oracle
               (src/mbi/region_graph.py, RegionGraph.hazan_peng_shashua)

The weights  cc[p,r] = c_p / (c_r + sum_{p' in parents(r)} c_p')  of the convex (Hazan / Peng /
Shashua) message passing only depend on the region graph, so it is tempting to compute them
once.  They do, however, depend on the WHOLE parent set of r -- not just on the edge (p,r) --
so they may only be remembered per graph, never across graphs.

The demo drives LocalInference the way an iterative mechanism does: the same process
estimates again and again while the measurement set grows (and shrinks).  After every call it
checks the clauses of property C18:
   * estimation completes without an exception,
   * every measured clique gets a finite, non-negative table that sums to the total,
   * the fit is no worse than the uniform start,
   * convex oracle: the feasibility tolerance the estimator enforces (mean L1 disagreement
     over the edges of the region graph < 1.0) holds on return; checked with the model's own
     measure, with an independent re-computation over the cover relation of the regions, and
     through the triangle-inequality consequence for pairs of measured cliques,
   * history independence: asking the same question again later in the process gives the
     same answer as the first time.

exit 0 + "PASS" + digest  : all checks hold
exit 1 + "FAIL" + reasons : some check is violated
"""
import os
import sys

if os.environ.get('PYTHONHASHSEED') != '0':
    # RegionGraph iterates over sets of tuples of str; pin the hash seed so that the
    # digest is reproducible from run to run.
    os.environ['PYTHONHASHSEED'] = '0'
    os.execv(sys.executable, [sys.executable] + sys.argv)

ROOT = os.path.dirname(os.path.dirname(os.path.dirname(os.path.abspath(__file__))))
sys.path.insert(0, os.path.join(ROOT, 'src'))

import hashlib
import itertools
import warnings
warnings.simplefilter('ignore')
import numpy as np

import mbi
if not os.path.abspath(mbi.__file__).startswith(os.path.join(ROOT, 'src')):
    print('ERROR: mbi imported from', mbi.__file__, 'instead of', os.path.join(ROOT, 'src'))
    sys.exit(2)
from mbi import Domain, Factor, LocalInference

failures = []
digest_lines = []
domain = Domain(['A', 'B', 'C', 'D', 'E', 'F'], [2, 3, 2, 3, 2, 2])
TOTAL = 1000.0
NOISE = 30.0

rng = np.random.RandomState(11)
TRUTH = Factor(domain, rng.dirichlet(0.2 * np.ones(domain.size())) * TOTAL)
ANSWERS = {}


def measurement(cl):
    """ one fixed noisy answer per clique, so that a clique keeps its answer when it is re-used """
    if cl not in ANSWERS:
        x = TRUTH.project(cl).datavector()
        r = np.random.RandomState(abs(hash(cl)) % (2 ** 31))     # PYTHONHASHSEED is pinned
        ANSWERS[cl] = x + r.normal(0, NOISE, x.size)
    y = ANSWERS[cl]
    return (np.eye(y.size), y, NOISE, cl)


def cover_edges(cliques):
    """ regions = closure of the cliques under intersection; edges = cover relation """
    regions = set(cliques)
    size = -1
    while size != len(regions):
        size = len(regions)
        for r, s in itertools.combinations(list(regions), 2):
            z = tuple(sorted(set(r) & set(s)))
            if z and z not in regions:
                regions.add(z)
    edges = []
    for r in regions:
        for s in regions:
            if set(s) < set(r) and not any(set(s) < set(t) < set(r) for t in regions):
                edges.append((r, s))
    return sorted(edges)


def check(tag, oracle, model, ms):
    T = model.total
    h = hashlib.sha256()
    cliques = [m[3] for m in ms]
    loss = uni = 0.0
    for Q, y, noise, cl in ms:
        x = model.project(cl).datavector()
        if x.size != domain.size(cl) or not np.all(np.isfinite(x)):
            failures.append('%s: table of %s is not finite' % (tag, cl))
        elif x.min() < 0:
            failures.append('%s: table of %s has negative entries' % (tag, cl))
        elif abs(x.sum() - T) > 1e-6 * T:
            failures.append('%s: table of %s sums to %r, total is %r' % (tag, cl, x.sum(), T))
        h.update(np.round(x, 5).tobytes())
        loss += 0.5 * np.sum((Q @ x - y) ** 2) / noise ** 2
        u = np.ones(x.size) * T / x.size
        uni += 0.5 * np.sum((Q @ u - y) ** 2) / noise ** 2
    if not loss <= uni * (1 + 1e-9):
        failures.append('%s: fit %.4f is worse than the uniform start %.4f' % (tag, loss, uni))
    line = '%s loss=%.6f uniform=%.6f' % (tag, loss, uni)
    if oracle == 'convex':
        own = model.primal_feasibility(model.marginals)
        edges = cover_edges(cliques)
        mu = model.marginals
        errs = [np.abs(mu[r].project(s).datavector() - mu[s].datavector()).sum() for r, s in edges]
        indep = float(np.mean(errs)) if errs else 0.0
        worst = 0.0
        for r, s in itertools.combinations(cliques, 2):
            d = tuple(sorted(set(r) & set(s)))
            if d:
                a = model.project(r).project(d).datavector()
                b = model.project(s).project(d).datavector()
                worst = max(worst, np.abs(a - b).sum())
        if not own < 1.0:
            failures.append('%s: the model reports feasibility %.3f on return; the estimator enforces < 1.0'
                            % (tag, own))
        # the estimator prunes redundant edges when a region's parents share an ancestor; the plain
        # cover relation is the enforced edge set only for two-level graphs (all parents maximal)
        two_level = not ({r for r, _ in edges} & {s for _, s in edges})
        if two_level and not indep < 1.0:
            failures.append('%s: mean L1 disagreement over the %d region-graph edges is %.3f (tolerance 1.0)'
                            % (tag, len(edges), indep))
        if not worst < max(1, len(edges)):
            failures.append('%s: two measured cliques disagree by %.3f (L1) on their shared attributes; '
                            'a tolerance of 1.0 per edge allows at most %d' % (tag, worst, len(edges)))
        line += ' feasible=%s' % (own < 1.0 and (indep < 1.0 or not two_level))
    digest_lines.append(line + ' tables=' + h.hexdigest()[:16])
    return h.hexdigest()


def session(name, oracle, rounds, iters=300):
    """ one engine, one process, a sequence of estimate() calls """
    engine = LocalInference(domain, marginal_oracle=oracle, iters=iters)
    seen = {}
    for i, cliques in enumerate(rounds):
        tag = '%s/%s/round%d' % (name, oracle, i)
        ms = [measurement(cl) for cl in cliques]
        try:
            model = engine.estimate(ms, total=TOTAL)
        except Exception as e:
            failures.append('%s: estimate raised %s: %s' % (tag, type(e).__name__, str(e)[:90]))
            digest_lines.append(tag + ' EXC')
            continue
        hx = check(tag, oracle, model, ms)
        key = tuple(cliques)
        if key in seen and seen[key][1] != hx:
            failures.append('%s: same measurements as in round %d of this session, different tables'
                            % (tag, seen[key][0]))
        seen.setdefault(key, (i, hx))
    return seen


AB, BC, BD, BE, CD, DE = ('A', 'B'), ('B', 'C'), ('B', 'D'), ('B', 'E'), ('C', 'D'), ('D', 'E')

# single calls on fresh structure
session('chain', 'convex', [[AB, BC, CD, DE]])
session('triples', 'convex', [[('A', 'B', 'C'), ('B', 'C', 'D'), ('C', 'D', 'E')]])
# a growing star around B (MWEM / AIM style: every round adds one measured marginal), then the
# first two rounds asked again
grow = [[AB, BC], [AB, BC, BD], [AB, BC, BD, BE], [AB, BC], [AB, BC, BD]]
for oracle in ['convex', 'approx', 'pairwise']:
    session('star-growing', oracle, grow)
# a second engine in the same process, workload shrinking instead of growing
session('star-shrinking', 'convex', [[CD, BD, DE, ('D', 'F')], [CD, DE], [CD, BD, DE]])

if failures:
    print('FAIL')
    for f in failures:
        print('  -', f)
    sys.exit(1)
print('PASS')
for line in digest_lines:
    print(line)
sys.exit(0)

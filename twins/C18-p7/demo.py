"""C18 pair 1 -- the record total used by approximate estimation when `total=None`.

Clause exercised: "returns for every measured clique a finite nonnegative table summing to
THE TOTAL ... forall totals" (total=None means: the minimum-variance unbiased estimate implied
by the measurements, exactly as exact estimation computes it) and, for families whose cliques
share no attributes with any other clique, "attains the same optimum as exact estimation".

For every scenario and every oracle the program checks that
  * estimate() completes, every measured table is finite, nonnegative and sums to model.total,
  * model.total equals an independently computed inverse-variance combination of the
    per-measurement total estimates, and equals the total used by FactoredInference,
  * (exactness scenarios) the tables agree with those of FactoredInference.
Exit 0 + PASS + digest when everything holds, exit 1 + FAIL otherwise.
"""
import os, sys

ROOT = os.path.dirname(os.path.dirname(os.path.dirname(os.path.abspath(__file__))))
if os.environ.get('PYTHONHASHSEED') != '0':          # set/dict iteration order is part of the run
    env = dict(os.environ, PYTHONHASHSEED='0')
    os.execve(sys.executable, [sys.executable] + sys.argv, env)
sys.path.insert(0, os.path.join(ROOT, 'src'))
sys.path.insert(1, ROOT)

import hashlib, warnings
import numpy as np
from scipy import sparse
warnings.filterwarnings('ignore')
import mbi
from mbi import Domain, LocalInference, FactoredInference

assert os.path.realpath(mbi.__file__).startswith(os.path.realpath(ROOT)), mbi.__file__

ORACLES = ['convex', 'approx', 'pairwise']
DOM = Domain(['A', 'B', 'C', 'D'], [2, 3, 4, 2])


def measure(cliques, noises, n, seed):
    """identity measurements of the marginals of n random records, Gaussian noise"""
    rng = np.random.RandomState(seed)
    data = {a: rng.randint(0, DOM[a], n) for a in DOM.attrs}
    out = []
    for cl, sigma in zip(cliques, noises):
        shape = tuple(DOM[a] for a in cl)
        if len(cl) == 0:
            x = np.array([float(n)])
        else:
            idx = np.ravel_multi_index(tuple(data[a] for a in cl), shape)
            x = np.bincount(idx, minlength=int(np.prod(shape))).astype(float)
        y = x + rng.normal(0, sigma, x.size)
        out.append((sparse.eye(x.size, format='csr'), y, sigma, cl))
    return out


def reference_total(ms):
    """inverse-variance weighted mean of the per-measurement estimates sum(y) (Q = identity)"""
    var = np.array([m[2] ** 2 * m[1].size for m in ms])
    est = np.array([m[1].sum() for m in ms])
    return max(1.0, float(np.sum(est / var) / np.sum(1.0 / var)))


# name, cliques, noise scales, records, seed, compare tables with exact estimation?
SCENARIOS = [
    ('chain',            [('A', 'B'), ('B', 'C'), ('C', 'D')],           [2.0, 2.0, 2.0],      200, 1, False),
    ('disjoint',         [('A', 'B'), ('C', 'D')],                       [1.0, 3.0],           150, 2, True),
    ('disjoint+count',   [('A', 'B'), ('C',), ()],                       [2.0, 2.0, 1.0],      120, 3, True),
    ('remeasured',       [('A', 'B'), ('C', 'D'), ('A', 'B')],           [1.0, 3.0, 5.0],      150, 4, True),
    ('remeasured-chain', [('A', 'B'), ('B', 'C'), ('A', 'B'), ('B', 'C')], [1.0, 1.0, 4.0, 4.0], 300, 5, False),
    ('remeasured-x9',    [('A',), ('B',)] * 4 + [('A',)],                [5.0, 4.0, 3.0, 2.5, 2.0, 1.5, 1.0, 0.8, 0.5], 250, 6, True),
]

failures = []
digest = hashlib.sha256()
for name, cliques, noises, n, seed, exact in SCENARIOS:
    ms = measure(cliques, noises, n, seed)
    ref = reference_total(ms)
    fi = FactoredInference(DOM, iters=800, log=False, warm_start=False)
    exact_model = fi.estimate(ms, total=None)
    if abs(exact_model.total - ref) > 1e-6 * ref:
        failures.append('%s: exact estimation total %r != reference %r' % (name, exact_model.total, ref))
    for oracle in ORACLES:
        tag = '%s/%s' % (name, oracle)
        try:
            eng = LocalInference(DOM, marginal_oracle=oracle, iters=300, log=False)
            model = eng.estimate(ms, total=None)
            tables = {cl: model.project(cl).datavector() for cl in dict.fromkeys(cliques)}
        except Exception as e:
            failures.append('%s: raised %s: %s' % (tag, type(e).__name__, e))
            continue
        digest.update(('%s total=%.9f\n' % (tag, model.total)).encode())
        if abs(model.total - ref) > 1e-6 * ref:
            failures.append('%s: total=None resolved to %.6f but the minimum-variance estimate '
                            '(and the total of exact estimation) is %.6f' % (tag, model.total, ref))
        for cl, t in tables.items():
            digest.update((str(cl) + ' ' + ' '.join('%.6f' % v for v in t) + '\n').encode())
            if not np.all(np.isfinite(t)) or t.min() < 0:
                failures.append('%s: table %s not finite/nonnegative' % (tag, cl))
            if abs(t.sum() - ref) > 1e-6 * ref:
                failures.append('%s: table %s sums to %.6f, expected total %.6f' % (tag, cl, t.sum(), ref))
            if exact:
                e = exact_model.project(cl).datavector()
                gap = float(np.abs(t - e).sum())
                if os.environ.get('C18_VERBOSE'):
                    sys.stderr.write('%s %s gap=%.5f tol=%.5f\n' % (tag, cl, gap, 0.002 * ref))
                if gap > 0.002 * ref:
                    failures.append('%s: table %s differs from exact estimation by L1=%.4f '
                                    '(cliques share no attributes with other cliques: optimum must coincide)' % (tag, cl, gap))

if failures:
    print('FAIL')
    for f in failures:
        print('  ' + f)
    sys.exit(1)
print('PASS')
print('digest', digest.hexdigest())
sys.exit(0)

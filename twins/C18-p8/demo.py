"""C18 pair 2 -- Domain.project, the helper every marginal oracle uses to build its message tables.

Clause exercised: "approximate estimation completes without error FOR EVERY MARGINAL ORACLE and
returns for every measured clique a finite nonnegative table summing to the total", quantified
over all measurement sets -- in particular over domains whose attribute names are ordinary words
('age', 'sex', ...) and not only single letters.

The region-graph oracles (convex, approx) only ever project the domain onto tuples of attributes;
the factor-graph oracle (pairwise) keeps one message/belief table per single attribute and asks
for it with `domain.project(name)`, i.e. with a bare string.

For every scenario and oracle the program checks that estimate() completes, and that every
measured table is finite, nonnegative, sums to the total and fits the measurements no worse than
the uniform start.  Exit 0 + PASS + digest when everything holds, exit 1 + FAIL otherwise.
"""
import os, sys

ROOT = os.path.dirname(os.path.dirname(os.path.dirname(os.path.abspath(__file__))))
if os.environ.get('PYTHONHASHSEED') != '0':          # set/dict iteration order is part of the run
    env = dict(os.environ, PYTHONHASHSEED='0')
    os.execve(sys.executable, [sys.executable] + sys.argv, env)
sys.path.insert(0, os.path.join(ROOT, 'src'))
sys.path.insert(1, ROOT)

import hashlib, warnings
import numpy as np
from scipy import sparse
warnings.filterwarnings('ignore')
import mbi
from mbi import Domain, LocalInference

assert os.path.realpath(mbi.__file__).startswith(os.path.realpath(ROOT)), mbi.__file__

ORACLES = ['convex', 'approx', 'pairwise']


def measure(dom, cliques, sigma, n, seed):
    rng = np.random.RandomState(seed)
    data = {a: rng.randint(0, dom[a], n) for a in dom.attrs}
    out = []
    for cl in cliques:
        shape = tuple(dom[a] for a in cl)
        idx = np.ravel_multi_index(tuple(data[a] for a in cl), shape)
        x = np.bincount(idx, minlength=int(np.prod(shape))).astype(float)
        y = x + rng.normal(0, sigma, x.size)
        out.append((sparse.eye(x.size, format='csr'), y, sigma, cl))
    return out


def loss(ms, table_of):
    return sum(0.5 * float(np.sum(((m[0] @ table_of(m[3]) - m[1]) / m[2]) ** 2)) for m in ms)


LETTERS = Domain(['A', 'B', 'C', 'D'], [2, 3, 4, 2])
WORDS = Domain(['age', 'sex', 'income', 'married'], [2, 3, 4, 2])
MIXED = Domain(['x', 'y1', 'y2', 'z'], [3, 2, 2, 3])

# name, domain, cliques, total, seed
SCENARIOS = [
    ('letters-chain',    LETTERS, [('A', 'B'), ('B', 'C'), ('C', 'D')],                          200, 1),
    ('letters-triangle', LETTERS, [('A', 'B'), ('B', 'C'), ('A', 'C')],                          500, 2),
    ('letters-disjoint', LETTERS, [('A', 'B'), ('C', 'D')],                                      100, 3),
    ('words-chain',      WORDS,   [('age', 'sex'), ('sex', 'income'), ('income', 'married')],    200, 1),
    ('words-disjoint',   WORDS,   [('age', 'sex'), ('income',)],                                 100, 4),
    ('words-3way',       WORDS,   [('age', 'sex', 'income'), ('sex', 'income', 'married')],      300, 5),
    ('mixed-names',      MIXED,   [('x', 'y1'), ('y1', 'y2'), ('y2', 'z')],                      150, 6),
]

failures = []
digest = hashlib.sha256()
for name, dom, cliques, total, seed in SCENARIOS:
    ms = measure(dom, cliques, 2.0, total, seed)
    uniform = loss(ms, lambda cl: np.full(dom.size(cl), float(total) / dom.size(cl)))
    for oracle in ORACLES:
        tag = '%s/%s' % (name, oracle)
        try:
            eng = LocalInference(dom, marginal_oracle=oracle, iters=150, log=False)
            model = eng.estimate(ms, total=float(total))
            tables = {cl: model.project(cl).datavector() for cl in cliques}
        except Exception as e:
            failures.append('%s: estimation did not complete: %s: %r' % (tag, type(e).__name__, e))
            continue
        for cl, t in tables.items():
            digest.update((tag + str(cl) + ' ' + ' '.join('%.6f' % v for v in t) + '\n').encode())
            if not np.all(np.isfinite(t)) or t.min() < 0:
                failures.append('%s: table %s not finite/nonnegative' % (tag, cl))
            if abs(t.sum() - total) > 1e-6 * total:
                failures.append('%s: table %s sums to %.6f, total is %s' % (tag, cl, t.sum(), total))
        fit = loss(ms, lambda cl: tables[cl])
        if fit > uniform:
            failures.append('%s: fit %.4f worse than the uniform start %.4f' % (tag, fit, uniform))

if failures:
    print('FAIL')
    for f in failures:
        print('  ' + f)
    sys.exit(1)
print('PASS')
print('digest', digest.hexdigest())
sys.exit(0)

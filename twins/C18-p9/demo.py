"""C18 pair 1 - CliqueVector.combine (the helper LocalInference uses to seed a new model with
structural zeros and, for a warm-started engine, with the previous model's potentials).

Clause exercised: approximate estimation COMPLETES WITHOUT ERROR for every marginal oracle and
returns valid tables - here over HISTORIES of calls on one re-used, warm-started engine whose
measurement set grows, stays, shrinks or is replaced between calls.

Exit 0 + PASS + digest on correct code, exit 1 + FAIL + explanation otherwise.
"""
import os, sys, hashlib, warnings

if os.environ.get('PYTHONHASHSEED') != '0':          # deterministic set/dict-of-str order
    env = dict(os.environ, PYTHONHASHSEED='0')
    os.execve(sys.executable, [sys.executable] + sys.argv, env)

ROOT = os.path.dirname(os.path.dirname(os.path.dirname(os.path.abspath(__file__))))
sys.path[0:0] = [os.path.join(ROOT, 'src'), ROOT]
warnings.filterwarnings('ignore')

import numpy as np
import mbi
from mbi import Domain, Factor, LocalInference, CliqueVector
assert os.path.abspath(mbi.__file__).startswith(ROOT + os.sep), mbi.__file__

DOM = Domain(['A', 'B', 'C', 'D'], [2, 3, 4, 2])
TOTAL = 200.0
_rng = np.random.default_rng(18)
_p = _rng.random(DOM.shape)
DATA = Factor(DOM, _p / _p.sum() * TOTAL)


def measure(cliques, seed, noise=3.0):
    rng = np.random.default_rng(seed)
    ms = []
    for cl in cliques:
        x = DATA.project(cl).datavector()
        ms.append((np.eye(x.size), x + rng.normal(0, noise, x.size), noise, cl))
    return ms


def check(tag, model, cliques, problems, lines):
    h = hashlib.sha256()
    for cl in cliques:
        x = model.project(cl).datavector()
        h.update(np.round(x / TOTAL, 9).tobytes())
        if not (np.all(np.isfinite(x)) and x.min() >= 0 and abs(x.sum() - TOTAL) <= 1e-6 * TOTAL):
            problems.append('%s: invalid table for %s' % (tag, cl))
    lines.append('%-52s %s' % (tag, h.hexdigest()[:16]))


AB, BC, CD, AD, A, D, ABC = ('A', 'B'), ('B', 'C'), ('C', 'D'), ('A', 'D'), ('A',), ('D',), ('A', 'B', 'C')

# histories of measurement sets given, one after the other, to ONE warm-started engine
HISTORIES = {
    'growing (AIM style)':       [[AB], [AB, BC], [AB, BC, CD], [AB, BC, CD, AD]],
    'unchanged':                 [[AB, BC, CD], [AB, BC, CD]],
    'coarser cliques absorb':    [[AB, BC], [ABC, CD]],
    'shrinking':                 [[AB, BC, CD], [AB, CD]],
    'replaced':                  [[A, BC], [AB, D]],
    'shrinking to one-way':      [[AB, CD], [A, D]],
}


def main():
    problems, lines = [], []

    # the helper itself, on a small vector
    dst = CliqueVector.zeros(DOM, [AB, CD])
    src = CliqueVector.ones(DOM, [A, BC, CD])
    try:
        dst.combine(src)
        got = [float(dst[cl].sum()) for cl in (AB, CD)]
        lines.append('combine ones[A,BC,CD] into zeros[AB,CD] -> sums %s' % got)
        if got != [6.0, 8.0]:
            problems.append('combine: expected sums [6.0, 8.0], got %s' % got)
    except BaseException as e:
        problems.append('combine raised %r for a factor (BC) that has no covering factor; '
                        'such factors must be ignored' % (e,))

    for oracle in ['convex', 'approx', 'pairwise']:
        # fresh (cold) engine: one call
        ms = measure([AB, BC, CD], 1)
        try:
            model = LocalInference(DOM, iters=60, marginal_oracle=oracle).estimate(ms, total=TOTAL)
            check('%s cold' % oracle, model, [AB, BC, CD], problems, lines)
        except BaseException as e:
            problems.append('%s cold: estimate raised %r' % (oracle, e))

        for name, history in HISTORIES.items():
            engine = LocalInference(DOM, iters=60, marginal_oracle=oracle, warm_start=True)
            for k, cliques in enumerate(history):
                tag = '%s warm / %s / call %d' % (oracle, name, k + 1)
                try:
                    model = engine.estimate(measure(cliques, 10 + k), total=TOTAL)
                except BaseException as e:
                    problems.append('%s: estimate raised %r (measured cliques %s, previous call %s)'
                                    % (tag, e, cliques, history[k - 1] if k else None))
                    break
                check(tag, model, cliques, problems, lines)

    print('\n'.join(lines))
    if problems:
        print('FAIL: approximate estimation must complete without error and return valid tables '
              'for every history of calls on a warm-started engine:')
        for p in problems:
            print('  - ' + p)
        sys.exit(1)
    print('PASS digest=' + hashlib.sha256('\n'.join(lines).encode()).hexdigest())
    sys.exit(0)


if __name__ == '__main__':
    main()

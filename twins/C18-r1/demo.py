"""Equivalence demo for refactoring 1 (oracle selection in LocalInference._setup).

Prints a deterministic digest; the output must be byte-identical on the
unmodified code and on the refactored code.

Run:  PYTHONPATH=<root>/src /venv/bin/python out/refactor1/demo.py
"""
import os
import sys

# Region graphs are built from Python sets of tuples of str, whose iteration
# order (and therefore the floating point summation order) depends on the hash
# seed.  Pin it so that two runs are comparable bit for bit.
if os.environ.get("PYTHONHASHSEED") != "0":
    env = dict(os.environ, PYTHONHASHSEED="0")
    os.execve(sys.executable, [sys.executable] + sys.argv, env)

ROOT = os.path.abspath(os.path.join(os.path.dirname(os.path.abspath(__file__)), "..", ".."))
sys.path.insert(0, os.path.join(ROOT, "src"))

import hashlib
import io
import contextlib
import numpy as np
from scipy import sparse

import mbi
from mbi import Domain, FactoredInference, RegionGraph, FactorGraph
from mbi.local_inference import LocalInference

assert os.path.abspath(mbi.__file__).startswith(ROOT), mbi.__file__


def digest(arr):
    arr = np.ascontiguousarray(np.asarray(arr, dtype=float))
    return hashlib.sha256(arr.tobytes()).hexdigest()[:12]


def fmt(arr):
    arr = np.round(np.asarray(arr, dtype=float), 7) + 0.0
    return np.array2string(arr.flatten(), precision=7, separator=",", max_line_width=10000)


def measurements(domain, cliques, noises, seed, kind="identity"):
    prng = np.random.RandomState(seed)
    out = []
    for cl, noise in zip(cliques, noises):
        n = domain.size(cl)
        x = prng.rand(n)
        x = 500.0 * x / x.sum()
        if kind == "identity":
            Q = sparse.eye(n, format="csr")
        elif kind == "dense":
            Q = np.vstack([np.eye(n), np.ones((1, n)), prng.rand(2, n)])
        else:
            raise ValueError(kind)
        y = Q @ x + prng.normal(0, noise, Q.shape[0])
        out.append((Q, y, noise, cl))
    return out


def show(tag, engine, model, cliques):
    print(tag, "model:", type(model).__name__, "convex=%r" % model.convex,
          "iters=%r" % model.iters, "total=%.7f" % model.total)
    print(tag, "model.cliques:", sorted(model.cliques))
    print(tag, "groups:", sorted((cl, len(v)) for cl, v in engine.groups.items()))
    for cl in cliques:
        v = model.project(cl).datavector()
        print(tag, cl, fmt(v), digest(v))
    mu = model.marginals
    loss = engine._marginal_loss(mu)[0]
    print(tag, "loss=%.7f" % loss, "feas=%.9f" % float(model.primal_feasibility(mu)))


def run(tag, domain, cliques, noises, oracle, iters, total=None, kind="identity",
        seed=0, metric="L2", zeros={}, inner_iters=1, warm=False, repeat=1):
    meas = measurements(domain, cliques, noises, seed, kind)
    try:
        engine = LocalInference(domain, marginal_oracle=oracle, iters=iters, metric=metric,
                                structural_zeros=zeros, inner_iters=inner_iters,
                                warm_start=warm)
        for _ in range(repeat):
            model = engine.estimate(meas, total=total, options={})
        show(tag, engine, model, cliques)
    except Exception as e:  # the exception class is part of the observable behaviour
        print(tag, "EXC", type(e).__name__)


dom = Domain(["A", "B", "C", "D"], [2, 3, 4, 2])
chain = [("A", "B"), ("B", "C"), ("C", "D")]
permuted = [("B", "A"), ("C", "B"), ("D", "C"), ("B",)]
nested = [("A", "B", "C"), ("B", "C"), ("C", "D"), ("A",)]
disjoint = [("A", "B"), ("D", "C")]

# every string oracle, several clique families / totals / iteration counts
for oracle in ["convex", "approx", "pairwise", "pairwise-convex", "exact", "", None, 3]:
    for name, cliques, noises in [("chain", chain, [1.0, 5.0, 0.5]),
                                  ("perm", permuted, [2.0, 0.1, 7.0, 1.0]),
                                  ("nested", nested, [1.0, 2.0, 3.0, 4.0]),
                                  ("disj", disjoint, [1.0, 10.0])]:
        for iters, total in [(0, None), (3, None), (40, 500.0), (75, 123.456)]:
            tag = "[%r %s it=%d tot=%r]" % (oracle, name, iters, total)
            run(tag, dom, cliques, noises, oracle, iters, total)

# inner_iters is forwarded to the oracle, dense non-identity queries, L1 metric
for oracle in ["convex", "approx", "pairwise"]:
    run("[%s inner=4 dense]" % oracle, dom, chain, [1.0, 3.0, 0.3], oracle, 30, None,
        kind="dense", inner_iters=4, seed=5)
    run("[%s L1]" % oracle, dom, nested, [1.0, 3.0, 0.3, 2.0], oracle, 30, 500.0,
        metric="L1", seed=6)

# structural zeros add cliques to the oracle and put -inf into the potentials
zeros = {("A", "B"): [(0, 0), (1, 2)], ("D",): [(1,)]}
for oracle in ["convex", "approx", "pairwise"]:
    with np.errstate(all="ignore"):
        run("[%s zeros]" % oracle, dom, chain, [1.0, 3.0, 0.3], oracle, 25, 500.0,
            zeros=zeros, seed=7)

# warm start: the second call combines the previous potentials into the new model
for oracle in ["convex", "approx", "pairwise"]:
    run("[%s warm x2]" % oracle, dom, chain, [1.0, 3.0, 0.3], oracle, 15, 500.0,
        warm=True, repeat=2, seed=8)

# a ready-made oracle object is used as is (only .total is overwritten)
meas = measurements(dom, chain, [1.0, 2.0, 3.0], 9)
for obj in [RegionGraph(dom, chain, 1.0, convex=True, iters=2),
            RegionGraph(dom, chain, 1.0, convex=False, iters=2),
            FactorGraph(dom, chain, 1.0, convex=False, iters=2)]:
    tag = "[object %s convex=%r]" % (type(obj).__name__, obj.convex)
    engine = LocalInference(dom, marginal_oracle=obj, iters=20)
    obj.potentials = mbi.CliqueVector.zeros(dom, obj.cliques)
    model = engine.estimate(meas, total=321.0, options={})
    print(tag, "same object:", model is obj, engine.model is obj)
    show(tag, engine, model, chain)

# exactness clause: disjoint cliques, local == exact estimation
meas = measurements(dom, disjoint, [1.0, 4.0], 10)
exact = FactoredInference(dom, iters=2000).estimate(meas, total=500.0)
for oracle in ["convex", "approx", "pairwise"]:
    model = LocalInference(dom, marginal_oracle=oracle, iters=400).estimate(meas, total=500.0, options={})
    for cl in disjoint:
        a = model.project(cl).datavector()
        b = exact.project(cl).datavector()
        print("[exact-vs-%s]" % oracle, cl, "maxdiff=%.7f" % np.abs(a - b).max(), digest(a))

"""Equivalence demo for refactoring 2 (LocalInference.mirror_descent_auto).

Prints a deterministic digest; the output must be byte-identical on the
unmodified code and on the refactored code.

Run:  PYTHONPATH=<root>/src /venv/bin/python out/refactor2/demo.py
"""
import os
import sys

# Region graphs are built from Python sets of tuples of str, whose iteration
# order (and therefore the floating point summation order) depends on the hash
# seed.  Pin it so that two runs are comparable bit for bit.
if os.environ.get("PYTHONHASHSEED") != "0":
    env = dict(os.environ, PYTHONHASHSEED="0")
    os.execve(sys.executable, [sys.executable] + sys.argv, env)

ROOT = os.path.abspath(os.path.join(os.path.dirname(os.path.abspath(__file__)), "..", ".."))
sys.path.insert(0, os.path.join(ROOT, "src"))

import hashlib
import numpy as np
from scipy import sparse

import mbi
from mbi import Domain, FactoredInference, CliqueVector, Factor
from mbi.local_inference import LocalInference

assert os.path.abspath(mbi.__file__).startswith(ROOT), mbi.__file__


def digest(arr):
    arr = np.ascontiguousarray(np.asarray(arr, dtype=float))
    return hashlib.sha256(arr.tobytes()).hexdigest()[:12]


def fmt(arr):
    arr = np.round(np.asarray(arr, dtype=float), 7) + 0.0
    return np.array2string(arr.flatten(), precision=7, separator=",", max_line_width=10000)


def measurements(domain, cliques, noises, seed, scale=500.0):
    prng = np.random.RandomState(seed)
    out = []
    for cl, noise in zip(cliques, noises):
        n = domain.size(cl)
        x = prng.rand(n)
        x = scale * x / x.sum()
        Q = sparse.eye(n, format="csr")
        y = Q @ x + prng.normal(0, noise, n)
        out.append((Q, y, noise, cl))
    return out


class Recorder:
    """Callback: records how often it is called and a running digest of what it saw."""

    def __init__(self):
        self.calls = 0
        self.h = hashlib.sha256()

    def __call__(self, mu):
        self.calls += 1
        for cl in sorted(mu.keys() if hasattr(mu, "keys") else mu):
            self.h.update(np.ascontiguousarray(mu[cl].datavector()).tobytes())


def messages_digest(model):
    h = hashlib.sha256()
    msgs = model.messages
    if isinstance(msgs, dict):                      # RegionGraph
        for k in sorted(msgs):
            h.update(repr(k).encode())
            h.update(np.ascontiguousarray(msgs[k].datavector()).tobytes())
    else:                                           # FactorGraph: (mu_n, mu_f)
        for part in msgs:
            for k1 in sorted(part, key=repr):
                for k2 in sorted(part[k1], key=repr):
                    h.update(repr((k1, k2)).encode())
                    h.update(np.ascontiguousarray(part[k1][k2].datavector()).tobytes())
    return h.hexdigest()[:12]


def run(tag, domain, cliques, noises, oracle, iters, total=None, seed=0, alpha=None,
        use_callback=True, log=False, metric="L2", scale=500.0, direct=False):
    meas = measurements(domain, cliques, noises, seed, scale)
    rec = Recorder() if use_callback else None
    options = {} if alpha is None else {"initial_alpha": alpha}
    try:
        engine = LocalInference(domain, marginal_oracle=oracle, iters=iters, log=log,
                                metric=metric)
        if direct:
            # call the two anchored methods directly and show their return values
            engine._setup(meas, total)
            l, theta, mu = engine.mirror_descent_auto(alpha=10.0 if alpha is None else alpha,
                                                      iters=iters, callback=rec)
            print(tag, "ret l=%.7f" % l,
                  "theta", digest(np.concatenate([theta[c].datavector() for c in sorted(theta)])),
                  "mu", digest(np.concatenate([mu[c].datavector() for c in sorted(mu)])))
            print(tag, "theta is model.potentials:", theta is engine.model.potentials)
            model = engine.model
            model.marginals = mu
        else:
            model = engine.estimate(meas, total=total, callback=rec, options=options)
            mu = model.marginals
        for cl in cliques:
            v = model.project(cl).datavector()
            print(tag, cl, fmt(v), digest(v))
        print(tag, "loss=%.7f" % engine._marginal_loss(mu)[0],
              "feas=%.9f" % float(model.primal_feasibility(mu)),
              "damping=%r" % model.damping, "total=%.7f" % model.total,
              "messages", messages_digest(model))
        pot = model.potentials
        print(tag, "potentials", digest(np.concatenate([pot[c].datavector() for c in sorted(pot)])))
    except Exception as e:  # the exception class is part of the observable behaviour
        print(tag, "EXC", type(e).__name__)
    if rec is not None:
        print(tag, "callback calls=%d" % rec.calls, rec.h.hexdigest()[:12])


dom = Domain(["A", "B", "C", "D"], [2, 3, 4, 2])
chain = [("A", "B"), ("B", "C"), ("C", "D")]
permuted = [("B", "A"), ("C", "B"), ("D", "C"), ("B",)]
nested = [("A", "B", "C"), ("B", "C"), ("C", "D"), ("A",)]
tri = [("A", "B"), ("B", "C"), ("A", "C"), ("C", "D"), ("B", "D")]
disjoint = [("A", "B"), ("D", "C")]
families = [("chain", chain, [1.0, 5.0, 0.5]),
            ("perm", permuted, [2.0, 0.1, 7.0, 1.0]),
            ("nested", nested, [1.0, 2.0, 3.0, 4.0]),
            ("tri", tri, [1.0, 0.2, 3.0, 0.7, 2.0]),
            ("disj", disjoint, [1.0, 10.0])]

# all oracles x clique families x iteration counts (0: no gradient step at all; 1;
# <= 50: only the restart branch can fire; > 50: the damping branch can fire as well)
for oracle in ["convex", "approx", "pairwise"]:
    for name, cliques, noises in families:
        for iters, total in [(0, 500.0), (1, None), (2, 500.0), (51, None), (52, 77.7), (130, None)]:
            tag = "[%s %s it=%d tot=%r]" % (oracle, name, iters, total)
            run(tag, dom, cliques, noises, oracle, iters, total)

# the log=True branch prints the restart / damping decisions (captured on stdout);
# with and without a user callback, and with different initial step sizes
for oracle in ["convex", "approx", "pairwise"]:
    for alpha in [1000.0, 10, 0.01, 1e-6]:
        tag = "[%s log alpha=%r]" % (oracle, alpha)
        # (with log=True and no callback the library installs callbacks.Logger, which
        #  prints wall-clock times: keep those two settings apart)
        run(tag, dom, tri, [1.0, 0.2, 3.0, 0.7, 2.0], oracle, 120, None, seed=3,
            alpha=alpha, use_callback=True, log=True)
        run(tag + "[nocb]", dom, tri, [1.0, 0.2, 3.0, 0.7, 2.0], oracle, 120, None, seed=3,
            alpha=alpha, use_callback=False, log=False)

# a family on which the late (t > 50) damping branch fires for the pairwise oracle
for oracle in ["convex", "approx", "pairwise"]:
    for iters in [100, 130, 300]:
        run("[%s damp it=%d]" % (oracle, iters), dom, nested, [1.0, 2.0, 3.0, 4.0], oracle, iters,
            None, log=True)

# small totals / large noise make the loss trajectory non-monotone late in the run
for oracle in ["convex", "approx", "pairwise"]:
    for seed in [11, 12, 13]:
        tag = "[%s late seed=%d]" % (oracle, seed)
        run(tag, dom, tri, [0.05, 0.01, 0.02, 0.05, 0.01], oracle, 200, 3.0, seed=seed,
            alpha=0.5, scale=3.0, log=True)

# L1 metric and a custom callable metric
def custom_metric(marginals):
    loss = 0.0
    grad = {}
    for cl in marginals:
        x = marginals[cl].datavector()
        target = np.arange(x.size) + 1.0
        target *= x.sum() / target.sum()
        loss += 0.5 * float((x - target) @ (x - target))
        grad[cl] = Factor(marginals[cl].domain, x - target)
    return loss, CliqueVector(grad)

for oracle in ["convex", "approx", "pairwise"]:
    run("[%s L1]" % oracle, dom, nested, [1.0, 3.0, 0.3, 2.0], oracle, 60, 500.0, metric="L1", seed=6)
    run("[%s custom]" % oracle, dom, chain, [1.0, 3.0, 0.3], oracle, 60, 50.0, metric=custom_metric, seed=6)

# direct calls of mirror_descent_auto: returned triple and potentials after restarts
for oracle in ["convex", "approx", "pairwise"]:
    for iters in [0, 5, 80]:
        run("[%s direct it=%d]" % (oracle, iters), dom, tri, [1.0, 0.2, 3.0, 0.7, 2.0], oracle,
            iters, 400.0, seed=4, direct=True)

# exactness clause: disjoint cliques, local == exact estimation
meas = measurements(dom, disjoint, [1.0, 4.0], 10)
exact = FactoredInference(dom, iters=2000).estimate(meas, total=500.0)
for oracle in ["convex", "approx", "pairwise"]:
    model = LocalInference(dom, marginal_oracle=oracle, iters=400).estimate(meas, total=500.0, options={})
    for cl in disjoint:
        a = model.project(cl).datavector()
        b = exact.project(cl).datavector()
        print("[exact-vs-%s]" % oracle, cl, "maxdiff=%.7f" % np.abs(a - b).max(), digest(a))

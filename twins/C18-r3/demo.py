"""Equivalence demo for refactoring 3 (RegionGraph: primal_feasibility, region
potentials helper, edge list in hazan_peng_shashua).

Prints a deterministic digest; the output must be byte-identical on the
unmodified code and on the refactored code.

Run:  PYTHONPATH=<root>/src /venv/bin/python out/refactor3/demo.py
"""
import os
import sys

# Region graphs are built from Python sets of tuples of str, whose iteration
# order (and therefore the floating point summation order) depends on the hash
# seed.  Pin it so that two runs are comparable bit for bit.
if os.environ.get("PYTHONHASHSEED") != "0":
    env = dict(os.environ, PYTHONHASHSEED="0")
    os.execve(sys.executable, [sys.executable] + sys.argv, env)

ROOT = os.path.abspath(os.path.join(os.path.dirname(os.path.abspath(__file__)), "..", ".."))
sys.path.insert(0, os.path.join(ROOT, "src"))

import hashlib
import numpy as np
from scipy import sparse

import mbi
from mbi import Domain, FactoredInference, CliqueVector, Factor, RegionGraph
from mbi.local_inference import LocalInference

assert os.path.abspath(mbi.__file__).startswith(ROOT), mbi.__file__


def digest(arr):
    arr = np.ascontiguousarray(np.asarray(arr, dtype=float))
    return hashlib.sha256(arr.tobytes()).hexdigest()[:12]


def fmt(arr):
    arr = np.round(np.asarray(arr, dtype=float), 7) + 0.0
    return np.array2string(arr.flatten(), precision=7, separator=",", max_line_width=10000)


def cv_digest(cv):
    return digest(np.concatenate([cv[c].datavector() for c in sorted(cv)]))


def messages_digest(model):
    h = hashlib.sha256()
    for k in sorted(model.messages):
        h.update(repr(k).encode())
        h.update(np.ascontiguousarray(model.messages[k].datavector()).tobytes())
    return h.hexdigest()[:12]


def measurements(domain, cliques, noises, seed, scale=500.0):
    prng = np.random.RandomState(seed)
    out = []
    for cl, noise in zip(cliques, noises):
        n = domain.size(cl)
        x = prng.rand(n)
        x = scale * x / x.sum()
        Q = sparse.eye(n, format="csr")
        y = Q @ x + prng.normal(0, noise, n)
        out.append((Q, y, noise, cl))
    return out


dom = Domain(["A", "B", "C", "D", "E"], [2, 3, 4, 2, 3])
families = [
    ("single", [("A", "B")]),
    ("chain", [("A", "B"), ("B", "C"), ("C", "D")]),
    ("perm", [("B", "A"), ("C", "B"), ("D", "C"), ("B",)]),
    ("nested", [("A", "B", "C"), ("B", "C"), ("C", "D"), ("A",)]),
    ("tri", [("A", "B"), ("B", "C"), ("A", "C"), ("C", "D"), ("B", "D")]),
    ("triples", [("A", "B", "C"), ("B", "C", "D"), ("C", "D", "E"), ("A", "E")]),
    ("disj", [("A", "B"), ("D", "C"), ("E",)]),
    ("dup", [("A", "B"), ("A", "B"), ("B", "C")]),
]

# ---- part 1: the RegionGraph oracle driven directly --------------------------------
for name, cliques in families:
    for convex in [True, False]:
        for minimal in [True, False]:
            for iters, total, damping in [(1, 1.0, 0.5), (7, 250.0, 0.5), (30, 3.5, 0.8)]:
                tag = "[rg %s convex=%r minimal=%r it=%d]" % (name, convex, minimal, iters)
                try:
                    model = RegionGraph(dom, cliques, total, minimal=minimal, convex=convex,
                                        iters=iters, damping=damping)
                    prng = np.random.RandomState(len(name) + iters)
                    theta = CliqueVector({cl: Factor(dom.project(cl), prng.normal(0, 2, dom.project(cl).shape))
                                          for cl in model.cliques})
                    if name == "tri":
                        # structural zeros: -inf potentials
                        v = theta[model.cliques[-1]].values
                        v[0, 0] = -np.inf
                    print(tag, "cliques", model.cliques)
                    print(tag, "feas(uniform)=%r" % float(model.primal_feasibility(model.marginals)))
                    for call in range(2):   # messages persist between calls
                        with np.errstate(all="ignore"):
                            mu = model.belief_propagation(theta)
                        print(tag, "call", call, "mu", cv_digest(mu), "messages", messages_digest(model),
                              "feas=%.12f" % float(model.primal_feasibility(mu)),
                              "type", type(model.primal_feasibility(mu)).__name__,
                              "converged", bool(model.is_converged(mu)))
                    for cl in cliques:
                        print(tag, cl, fmt(mu[tuple(cl)].datavector() if tuple(cl) in mu else model.project(cl).datavector()))
                    # the other two schemes that share the potential set-up (with non-convex
                    # counting numbers they may divide by a zero counting number)
                    try:
                        with np.errstate(all="ignore"):
                            mu2 = model.loh_wibisono(theta)
                        print(tag, "loh_wibisono", cv_digest(mu2), "feas=%.12f" % float(model.primal_feasibility(mu2)))
                    except Exception as e:
                        print(tag, "loh_wibisono EXC", type(e).__name__)
                    seen = []
                    try:
                        with np.errstate(all="ignore"):
                            mu3 = model.hazan_peng_shashua(theta, callback=lambda m: seen.append(cv_digest(CliqueVector(m))))
                        print(tag, "hps", cv_digest(mu3), "callback", len(seen), seen[-1] if seen else None,
                              "messages", messages_digest(model))
                    except Exception as e:
                        print(tag, "hps EXC", type(e).__name__, len(seen))
                except Exception as e:
                    print(tag, "EXC", type(e).__name__)

# ---- part 2: through LocalInference.estimate ----------------------------------------
def run(tag, cliques, noises, oracle, iters, total, seed=0, zeros={}, inner_iters=1):
    meas = measurements(dom, cliques, noises, seed)
    try:
        engine = LocalInference(dom, marginal_oracle=oracle, iters=iters, structural_zeros=zeros,
                                inner_iters=inner_iters)
        with np.errstate(all="ignore"):
            model = engine.estimate(meas, total=total, options={})
        mu = model.marginals
        for cl in cliques:
            v = model.project(cl).datavector()
            print(tag, cl, fmt(v), digest(v))
        print(tag, "loss=%.7f" % engine._marginal_loss(mu)[0],
              "feas=%.9f" % float(model.primal_feasibility(mu)),
              "damping=%r" % model.damping, "total=%.7f" % model.total)
        if hasattr(model, "regions"):
            print(tag, "messages", messages_digest(model))
    except Exception as e:
        print(tag, "EXC", type(e).__name__)


noise_sets = {1: [0.7], 3: [1.0, 5.0, 0.5], 4: [2.0, 0.1, 7.0, 1.0], 5: [1.0, 0.2, 3.0, 0.7, 2.0]}
for oracle in ["convex", "approx", "pairwise"]:
    for name, cliques in families:
        for iters, total in [(0, 100.0), (3, None), (60, 500.0), (110, 42.0)]:
            tag = "[est %s %s it=%d tot=%r]" % (oracle, name, iters, total)
            run(tag, cliques, noise_sets[len(cliques)], oracle, iters, total)

for oracle in ["convex", "approx"]:
    run("[est %s inner=5]" % oracle, families[5][1], noise_sets[4], oracle, 40, None, seed=2, inner_iters=5)
    run("[est %s zeros]" % oracle, families[1][1], noise_sets[3], oracle, 5, 500.0, seed=7,
        zeros={("A", "B"): [(0, 0), (1, 2)], ("D",): [(1,)]})

# exactness clause: disjoint cliques, local == exact estimation
disjoint = [("A", "B"), ("D", "C"), ("E",)]
meas = measurements(dom, disjoint, [1.0, 4.0, 2.0], 10)
exact = FactoredInference(dom, iters=2000).estimate(meas, total=500.0)
for oracle in ["convex", "approx"]:
    model = LocalInference(dom, marginal_oracle=oracle, iters=400).estimate(meas, total=500.0, options={})
    for cl in disjoint:
        a = model.project(cl).datavector()
        b = exact.project(cl).datavector()
        print("[exact-vs-%s]" % oracle, cl, "maxdiff=%.7f" % np.abs(a - b).max(), digest(a))

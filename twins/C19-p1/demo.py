"""C19 / pair 1 -- the acceptance rule of the line search in entropic_mirror_descent.

Checks that PublicInference.estimate returns one finite nonnegative weight per (unchanged)
public record, summing to the given / estimated total, and that the reweighted public data
(loss recomputed here from the returned weights) never fits worse than uniform weights.

Besides ordinary L2 / L1 problems, the cases include trial steps whose loss cannot be
evaluated (it comes out as NaN), which the line search has to treat as "no sufficient
decrease" and step back from:
  * a user-supplied metric (documented feature: metric may be a callable) -- a plain
    cross-entropy  -sum y*log(mu)  over raw private counts, fitted with total=1 so that the
    weights form a probability vector; the first trial steps are so long that the weight of
    public records outside the private support underflows to exactly 0, and 0*log(0) = NaN;
  * total=0 (empty private dataset) with the default L2 metric: the renormalisation of
    every trial point is log(0) - logsumexp(-inf) = NaN; the correct answer is all-zero weights;
  * entropic_mirror_descent called with iters=1100 on a problem whose start is already optimal:
    the step size doubles until it overflows to inf, and inf * 0 = NaN.

exit 0 + "PASS" + digest  : property holds on every case
exit 1 + "FAIL" + reasons : property violated
"""
import os, sys, hashlib, warnings

ROOT = os.path.dirname(os.path.dirname(os.path.dirname(os.path.abspath(__file__))))
sys.path.insert(0, os.path.join(ROOT, 'src'))
warnings.simplefilter('ignore')

import numpy as np
import pandas as pd
import mbi
assert os.path.abspath(mbi.__file__).startswith(ROOT + os.sep), 'wrong mbi: %s' % mbi.__file__
from mbi import Dataset, Domain, Factor, CliqueVector
from mbi.public_inference import PublicInference, entropic_mirror_descent

ATTRS = ['a', 'b', 'c']
SHAPE = [4, 3, 2]
DOMAIN = Domain(ATTRS, SHAPE)


# ---------------------------------------------------------------- independent reference
def table(values, shape, weights):
    ans = np.zeros(shape)
    np.add.at(ans, tuple(values.T), weights)
    return ans


def marginal(df, weights, cl):
    shape = [SHAPE[ATTRS.index(x)] for x in cl]
    return table(df[list(cl)].values, shape, weights).flatten()


def l2_loss(df, weights, measurements):
    loss = 0.0
    for Q, y, noise, cl in measurements:
        diff = (Q @ marginal(df, weights, cl) - y) / noise
        loss += 0.5 * float(diff @ diff)
    return loss


def l1_loss(df, weights, measurements):
    return sum(float(np.abs(Q @ marginal(df, weights, cl) - y).sum()) / noise
               for Q, y, noise, cl in measurements)


def xent_loss(df, weights, measurements):
    # -sum y log mu with the convention 0*log(0) = 0
    loss = 0.0
    for Q, y, noise, cl in measurements:
        mu = marginal(df, weights, cl)
        keep = y > 0
        loss -= float((y[keep] * np.log(mu[keep])).sum())
    return loss


def reference_total(measurements):
    est = np.array([y.sum() for _, y, _, _ in measurements])
    var = np.array([noise ** 2 * y.size for _, y, noise, _ in measurements])
    return max(1.0, float(np.sum(est / var) / np.sum(1.0 / var)))


# ---------------------------------------------------------------- inputs
def private_frame(rng, pa, n=4000):
    a = rng.choice(4, size=n, p=pa)
    b = (a + rng.choice(3, size=n, p=[0.6, 0.3, 0.1])) % 3
    c = (rng.random(n) < 0.25 + 0.15 * a).astype(int)
    return pd.DataFrame({'a': a, 'b': b, 'c': c})


def measure(rng, priv, cliques, noises):
    out = []
    for cl, noise in zip(cliques, noises):
        x = marginal(priv, np.ones(len(priv)), cl)
        y = x + (rng.normal(scale=noise, size=x.size) if noise > 0 else 0.0)
        out.append((np.eye(x.size), y, float(max(noise, 1.0)), cl))
    return out


def public_frame(rng, n):
    return pd.DataFrame({'c': rng.integers(0, 2, size=n), 'junk': np.arange(n),
                         'a': rng.integers(0, 4, size=n), 'b': rng.integers(0, 3, size=n)})


def make_xent(measurements):
    """user-supplied metric: cross-entropy between the measured counts and the marginals"""
    def metric(marginals):
        loss = 0.0
        grad = {}
        for Q, y, noise, cl in measurements:
            mu = marginals[cl]
            x = mu.datavector()
            loss -= (y * np.log(x)).sum()
            grad[cl] = Factor(mu.domain, -y / x)
        return float(loss), CliqueVector(grad)
    return metric


def cases():
    rng = np.random.default_rng(1907)
    cliques = [('a',), ('a', 'b'), ('b', 'c')]
    noises = [5.0, 20.0, 10.0]

    priv = private_frame(rng, [0.1, 0.2, 0.3, 0.4])
    yield 'L2-estimated-total', public_frame(rng, 200), measure(rng, priv, cliques, noises), None, 'L2', l2_loss
    priv = private_frame(rng, [0.4, 0.3, 0.2, 0.1])
    yield 'L2-given-total', public_frame(rng, 150), measure(rng, priv, cliques, noises), 1234.5, 'L2', l2_loss
    priv = private_frame(rng, [0.25, 0.25, 0.25, 0.25])
    yield 'L1-estimated-total', public_frame(rng, 180), measure(rng, priv, cliques, noises), None, 'L1', l1_loss

    # private data that never takes a=3 nor b=2; exact counts; public data covers everything
    priv = private_frame(rng, [0.5, 0.3, 0.2, 0.0])
    priv['b'] = priv['b'] % 2
    meas = measure(rng, priv, [('a',), ('b',)], [0.0, 0.0])
    yield 'xent-metric-small-steps', public_frame(rng, 120), meas, float(len(priv)), make_xent(meas), xent_loss
    yield 'xent-metric-total=1', public_frame(rng, 120), meas, 1.0, make_xent(meas), xent_loss

    # empty private dataset, answered exactly: every measurement is 0 and so is the total
    empty = private_frame(rng, [0.25, 0.25, 0.25, 0.25], n=0)
    yield 'L2-total=0', public_frame(rng, 90), measure(rng, empty, cliques, [0.0, 0.0, 0.0]), 0, 'L2', l2_loss


# ---------------------------------------------------------------- the checks
def check_weights(name, w, n, want_total, bad):
    if w.shape != (n,):
        bad('weights have shape %s for %d public records' % (w.shape, n))
        return False
    if not np.isfinite(w).all():
        bad('%d of %d weights are not finite (%s)' % ((~np.isfinite(w)).sum(), n, w[:3]))
        return False
    if (w < 0).any():
        bad('negative weights')
    if abs(w.sum() - want_total) > 1e-6 * max(want_total, 1.0):
        bad('weights sum to %.6f, total is %.6f' % (w.sum(), want_total))
    return True


def check(name, pub, meas, total, metric, ref_loss, problems, digest):
    def bad(msg):
        problems.append('%s: %s' % (name, msg))

    before = pub.copy(deep=True)
    engine = PublicInference(Dataset(pub, DOMAIN), metric=metric)
    est = engine.estimate(meas, total=total)
    w = np.asarray(est.weights)
    want_total = reference_total(meas) if total is None else float(total)

    if not check_weights(name, w, len(pub), want_total, bad):
        digest.append('%-26s INVALID' % name)
        return
    if not pub.equals(before):
        bad('the public dataframe was modified')
    if not np.array_equal(est.df.values, before[ATTRS].values) or list(est.df.columns) != ATTRS:
        bad('returned dataset is not over the public records')

    uniform = np.ones(len(pub)) * want_total / len(pub)
    l_unif = ref_loss(before, uniform, meas)
    l_fit = ref_loss(before, w, meas)
    if not l_fit <= l_unif + 1e-9 * abs(l_unif):
        bad('reweighted public data fits WORSE than uniform weights: loss %.8g > %.8g' % (l_fit, l_unif))
    digest.append('%-26s n=%d total=%.6f uniform=%.8g fitted=%.8g sha=%s' % (
        name, len(pub), w.sum(), l_unif, l_fit, hashlib.sha256(w.tobytes()).hexdigest()[:16]))


def check_direct(problems, digest):
    """entropic_mirror_descent itself, more iterations than the default"""
    name = 'direct-iters=1100'

    def bad(msg):
        problems.append('%s: %s' % (name, msg))

    target = np.ones(8)

    def loss_and_grad(p):
        d = p - target
        return 0.5 * float(d @ d), d

    w = entropic_mirror_descent(loss_and_grad, np.ones(8), 8.0, iters=1100)
    if check_weights(name, w, 8, 8.0, bad):
        l_fit, l_unif = loss_and_grad(w)[0], loss_and_grad(np.ones(8))[0]
        if not l_fit <= l_unif + 1e-12:
            bad('loss went up from %.3g to %.3g' % (l_unif, l_fit))
        digest.append('%-26s n=8 total=%.6f uniform=%.8g fitted=%.8g sha=%s' % (
            name, w.sum(), l_unif, l_fit, hashlib.sha256(w.tobytes()).hexdigest()[:16]))
    else:
        digest.append('%-26s INVALID' % name)

    # and an ordinary run of the same routine, started away from the optimum
    name2 = 'direct-iters=400'
    rng = np.random.default_rng(5)
    target2 = rng.dirichlet(np.ones(12)) * 50.0

    def loss_and_grad2(p):
        d = p - target2
        return 0.5 * float(d @ d), d

    w = entropic_mirror_descent(loss_and_grad2, np.ones(12), 50.0, iters=400)
    if check_weights(name2, w, 12, 50.0, lambda m: problems.append('%s: %s' % (name2, m))):
        l_fit, l_unif = loss_and_grad2(w)[0], loss_and_grad2(np.ones(12) * 50.0 / 12)[0]
        if not l_fit <= l_unif + 1e-12:
            problems.append('%s: loss went up from %.6g to %.6g' % (name2, l_unif, l_fit))
        digest.append('%-26s n=12 total=%.6f uniform=%.8g fitted=%.8g sha=%s' % (
            name2, w.sum(), l_unif, l_fit, hashlib.sha256(w.tobytes()).hexdigest()[:16]))
    else:
        digest.append('%-26s INVALID' % name2)


def main():
    problems, digest = [], []
    for name, pub, meas, total, metric, ref_loss in cases():
        check(name, pub, meas, total, metric, ref_loss, problems, digest)
    check_direct(problems, digest)
    if problems:
        print('FAIL')
        for p in problems:
            print('  ' + p)
        for line in digest:
            print('  [info] ' + line)
        return 1
    print('PASS')
    for line in digest:
        print(line)
    print('digest', hashlib.sha256('\n'.join(digest).encode()).hexdigest())
    return 0


if __name__ == '__main__':
    sys.exit(main())

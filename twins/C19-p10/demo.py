#!/usr/bin/env python
"""C19 / pair 2 -- estimate_total: "solve first, filter afterwards".

Property clause under test: with total=None the weights returned by
PublicInference.estimate sum to the ESTIMATED total, i.e. the minimum-variance
(inverse-variance weighted) combination of the per-measurement total estimates,
taken over exactly those measurements whose queries can express the total at all,
floored at 1.  The reference value is recomputed here with dense pseudo-inverses.

Prints PASS + a digest and exits 0 when every case satisfies the property,
prints FAIL + an explanation and exits 1 otherwise.
"""
import os, sys, hashlib, warnings
ROOT = os.path.dirname(os.path.dirname(os.path.dirname(os.path.abspath(__file__))))
sys.path.insert(0, ROOT)
sys.path.insert(0, os.path.join(ROOT, 'src'))
warnings.filterwarnings('ignore')

import numpy as np
import pandas as pd
from scipy import sparse
import mbi
from mbi import Dataset, Domain
from mbi.public_inference import PublicInference, estimate_total

assert os.path.abspath(mbi.__file__).startswith(os.path.join(ROOT, 'src')), mbi.__file__


def reference_total(measurements):
    """ minimum variance unbiased estimate of the number of records """
    num = den = 0.0
    for Q, y, noise, cl in measurements:
        A = Q.toarray() if sparse.issparse(Q) else np.asarray(Q, dtype=float)
        ones = np.ones(A.shape[1])
        v = np.linalg.pinv(A.T) @ ones            # min-norm v with v^T Q = 1^T, if one exists
        if np.abs(A.T @ v - ones).max() > 1e-6:   # the queries do not determine the total
            continue
        var = noise**2 * (v @ v)
        num += (v @ np.asarray(y)) / var
        den += 1.0 / var
    return 1.0 if den == 0 else max(1.0, num / den)


def l2(data, measurements):
    loss = 0.0
    for Q, y, noise, cl in measurements:
        r = (Q @ data.project(cl).datavector() - y) / noise
        loss += 0.5 * (r @ r)
    return loss


DOM = Domain(['a', 'b', 'c'], [4, 5, 4])


def world(seed, n_public=40, n_private=600):
    rng = np.random.RandomState(seed)
    pub = pd.DataFrame({a: rng.randint(0, n, n_public) for a, n in zip(DOM.attrs, DOM.shape)})
    priv = Dataset(pd.DataFrame({a: np.minimum(rng.geometric(0.45, n_private) - 1, n - 1)
                                 for a, n in zip(DOM.attrs, DOM.shape)}), DOM)
    return rng, pub, priv


def answer(rng, priv, Q, noise, cl):
    x = priv.project(cl).datavector()
    return (Q, Q @ x + rng.normal(0, noise, Q.shape[0]), noise, cl)


def top_cells(n, keep):
    """ selection queries: only the first `keep` cells of an n-cell marginal are asked """
    return sparse.eye(n, format='csr')[:keep]


def cases():
    # 1. plain identity measurements, equal noise
    rng, pub, priv = world(10)
    yield 'identity', pub, [answer(rng, priv, sparse.eye(4), 3.0, ('a',)),
                            answer(rng, priv, sparse.eye(20), 3.0, ('a', 'b'))]
    # 2. heterogeneous noise, repeated clique, weighted queries, a bare total query
    rng, pub, priv = world(11)
    yield 'mixed', pub, [answer(rng, priv, sparse.eye(5), 8.0, ('b',)),
                         answer(rng, priv, 2.0*sparse.eye(4), 1.0, ('c',)),
                         answer(rng, priv, sparse.eye(5), 0.5, ('b',)),
                         answer(rng, priv, np.ones((1, 4)), 2.0, ('a',))]
    # 3. a partial (selection) measurement at the END of the list
    rng, pub, priv = world(12)
    yield 'partial-last', pub, [answer(rng, priv, sparse.eye(4), 2.0, ('a',)),
                                answer(rng, priv, sparse.eye(4), 5.0, ('c',)),
                                answer(rng, priv, top_cells(5, 4), 0.2, ('b',))]
    # 4. the same kind of partial measurement FIRST, followed by measurements with as many answers
    rng, pub, priv = world(13)
    yield 'partial-first', pub, [answer(rng, priv, top_cells(5, 4), 0.2, ('b',)),
                                 answer(rng, priv, sparse.eye(4), 2.0, ('a',)),
                                 answer(rng, priv, sparse.eye(4), 5.0, ('c',))]
    # 5. partial measurement in the middle; nothing else changes
    rng, pub, priv = world(14)
    yield 'partial-middle', pub, [answer(rng, priv, sparse.eye(4), 4.0, ('a',)),
                                  answer(rng, priv, top_cells(5, 4), 1.0, ('b',)),
                                  answer(rng, priv, sparse.eye(4), 1.0, ('c',))]
    # 6. only partial measurements: no estimate possible, the total falls back to 1
    rng, pub, priv = world(15)
    yield 'partial-only', pub, [answer(rng, priv, top_cells(5, 3), 1.0, ('b',)),
                                answer(rng, priv, top_cells(4, 2), 1.0, ('a',))]


failures = []
lines = []
for name, pub, meas in cases():
    want = reference_total(meas)
    direct = estimate_total(tuple(meas))      # a tuple of measurements is as good as a list
    public = Dataset(pub.copy(), DOM)
    before = public.df.copy()
    est = PublicInference(public).estimate(meas)          # total=None
    w = est.weights
    problems = []
    if w.shape != (len(pub),):
        problems.append('expected one weight per public record, got shape %s' % (w.shape,))
    if not np.all(np.isfinite(w)):
        problems.append('non-finite weights')
    elif (w < 0).any():
        problems.append('negative weights')
    if not np.isclose(direct, want, rtol=1e-6):
        problems.append('estimate_total returned %.6f, the minimum-variance estimate is %.6f' % (direct, want))
    if not np.isclose(w.sum(), want, rtol=1e-6):
        problems.append('weights sum to %.6f but the estimated total is %.6f' % (w.sum(), want))
    if not (est.df.values == before.values).all():
        problems.append('public records changed')
    uniform = Dataset(before, DOM, np.ones(len(pub)) * w.sum() / len(pub))
    fit, base = l2(est, meas), l2(uniform, meas)
    if not fit <= base * (1 + 1e-9):
        problems.append('fits worse than uniform: %.6f > %.6f' % (fit, base))
    for p in problems:
        failures.append('%s: %s' % (name, p))
    lines.append('%-15s reference=%.6f estimate_total=%.6f sum(w)=%.6f fit=%.6f uniform=%.6f w=%s' % (
        name, want, direct, w.sum(), fit, base, hashlib.sha256(np.round(w, 6).tobytes()).hexdigest()[:16]))

print('\n'.join(lines))
if failures:
    print('FAIL')
    for f in failures:
        print('  ' + f)
    print('With total=None the weights must sum to the minimum-variance estimate of the total '
          'computed from the measurements that determine it.')
    sys.exit(1)
print('PASS', hashlib.sha256('\n'.join(lines).encode()).hexdigest())
sys.exit(0)

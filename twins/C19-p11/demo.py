"""C19 / pair 1 -- PublicInference.estimate: per-record cell indices computed once per fit.

Checks, on several public datasets / measurement sets, every clause of property C19:
one finite non-negative weight per public record, summing to the total, over the unchanged
public records, and a fit that is never worse than the uniformly weighted public data with
the same total.  The loss is recomputed here, independently of the library.

exit 0 + "PASS" + digest   on the unmodified code and with the preserving change
exit 1 + "FAIL" + reasons  with the breaking change
"""
import os, sys, hashlib, warnings
ROOT = os.path.dirname(os.path.dirname(os.path.dirname(os.path.abspath(__file__))))
sys.path.insert(0, os.path.join(ROOT, 'src'))
warnings.filterwarnings('ignore')

import numpy as np
import pandas as pd
from scipy import sparse
import mbi
from mbi import Dataset, Domain, PublicInference

assert os.path.abspath(mbi.__file__).startswith(ROOT), mbi.__file__


def marginal(df, domain, clique, weights):
    """ independent weighted contingency table (flat, row-major in clique order) """
    attrs = [clique] if isinstance(clique, str) else list(clique)
    shape = [domain.config[a] for a in attrs]
    vals = df[attrs].to_numpy().astype(np.int64)
    out = np.zeros(shape)
    np.add.at(out, tuple(vals.T), weights)
    return out.ravel()


def true_loss(df, domain, measurements, weights, metric):
    loss = 0.0
    for Q, y, noise, cl in measurements:
        r = (Q @ marginal(df, domain, cl, weights) - y) / noise
        loss += np.abs(r).sum() if metric == 'L1' else 0.5 * float(r @ r)
    return loss


def make(seed, shape, n_pub, n_priv, dtype, skew):
    rng = np.random.RandomState(seed)
    attrs = list('abcd')[:len(shape)]
    domain = Domain(attrs, shape)
    def draw(n, power):
        cols = {}
        for a, k in zip(attrs, shape):
            p = (np.arange(k) + 1.0) ** power
            cols[a] = rng.choice(k, size=n, p=p / p.sum())
        return pd.DataFrame(cols)
    priv = draw(n_priv, skew)
    # n_pub None: the public records are a copy of the private ones (public sample == population)
    pub = (priv.copy() if n_pub is None else draw(n_pub, 0.0)).astype(dtype)
    return rng, domain, priv, pub


def measure(rng, priv, domain, specs):
    ones = np.ones(len(priv))
    out = []
    for cl, noise in specs:
        x = marginal(priv, domain, cl, ones)
        Q = sparse.eye(x.size, format='csr')
        out.append((Q, x + rng.normal(0, noise, x.size), noise, cl))
    return out


CASES = [
    # name, seed, shape, n_pub, n_priv, public dtype, skew, measurement specs, total, metric
    ('int64-3attr',      1, (4, 5, 3),  300,  900, np.int64, 1.0,
        [(('a', 'b'), 2.0), (('b', 'c'), 1.0), (('a',), 3.0)], 900, 'L2'),
    ('int64-order-dup',  2, (4, 5, 3),  250,  700, np.int64, 1.5,
        [(('c', 'a'), 1.0), (('a', 'b'), 2.0), (('c', 'a'), 4.0), ('b', 1.0)], None, 'L2'),
    ('int64-L1',         3, (3, 4, 2),  200,  500, np.int64, 1.0,
        [(('a', 'b'), 1.0), (('b', 'c'), 1.0)], 500.0, 'L1'),
    ('int32-small',      4, (6, 7),     400, 1000, np.int32, 0.7,
        [(('a', 'b'), 1.5), (('b',), 1.0)], None, 'L2'),
    ('uint8-small',      5, (6, 7),     400, 1000, np.uint8, 0.7,
        [(('a', 'b'), 1.5), (('a',), 1.0)], 1000, 'L2'),
    # compactly stored public data (uint8 codes) and a marginal with more than 256 cells;
    # the public records are a copy of the private ones here (n_pub None), so the uniformly
    # weighted public data already fits the measurements up to the measurement noise
    ('uint8-400cells',   6, (20, 20),  None, 4000, np.uint8, 0.5,
        [(('a', 'b'), 1.0)], 4000, 'L2'),
    ('int64-400cells',   6, (20, 20),  None, 4000, np.int64, 0.5,
        [(('a', 'b'), 1.0)], 4000, 'L2'),
    ('uint8-3way',       7, (12, 9, 8), None, 6000, np.uint8, 0.3,
        [(('a', 'b', 'c'), 2.0), (('c', 'b'), 1.0)], None, 'L2'),
]

failures, lines = [], []
for name, seed, shape, n_pub, n_priv, dtype, skew, specs, total, metric in CASES:
    rng, domain, priv, pub = make(seed, shape, n_pub, n_priv, dtype, skew)
    measurements = measure(rng, priv, domain, specs)
    before = pub.copy()
    n_pub = len(pub)
    engine = PublicInference(Dataset(pub, domain), metric=metric)
    est = engine.estimate(measurements, total=total)
    w = np.asarray(est.weights, dtype=float)

    bad = []
    if w.shape != (n_pub,):
        bad.append('expected %d weights, got shape %s' % (n_pub, w.shape))
    if not np.all(np.isfinite(w)) or not np.all(w >= 0):
        bad.append('weights are not all finite and non-negative')
    T = float(w.sum())
    if total is not None and abs(T - total) > 1e-6 * total:
        bad.append('weights sum to %r, total given was %r' % (T, total))
    if not est.df.reset_index(drop=True).equals(before[list(domain.attrs)]) or not pub.equals(before):
        bad.append('public records were changed')
    uniform = np.ones(n_pub) * T / n_pub
    l_uni = true_loss(before, domain, measurements, uniform, metric)
    l_fit = true_loss(before, domain, measurements, w, metric)
    if not l_fit <= l_uni * (1 + 1e-9) + 1e-9:
        bad.append('reweighted loss %.6f is worse than the uniform loss %.6f (same total %.3f)'
                   % (l_fit, l_uni, T))
    for b in bad:
        failures.append('%s: %s' % (name, b))
    h = hashlib.sha256(np.round(w, 8).tobytes()).hexdigest()[:16]
    lines.append('%-16s total=%.6f uniform=%.6f fitted=%.6f weights=%s'
                 % (name, T, l_uni, l_fit, h))

if failures:
    print('FAIL')
    for f in failures:
        print('  ' + f)
    sys.exit(1)
print('PASS')
for l in lines:
    print(l)
print('digest', hashlib.sha256('\n'.join(lines).encode()).hexdigest())

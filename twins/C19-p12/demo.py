"""C19 / pair 2 -- PublicInference.estimate / _marginal_loss: inverse noise scales computed once.

Checks every clause of property C19 on several measurement sets, with the stress on the
"summing to the given or ESTIMATED total" clause: when no total is given the weights must sum
to the minimum-variance (inverse-variance weighted) estimate of the total, floored at 1.  The
reference estimate and the loss are recomputed here, independently of the library.

exit 0 + "PASS" + digest   on the unmodified code and with the preserving change
exit 1 + "FAIL" + reasons  with the breaking change
"""
import os, sys, hashlib, warnings
ROOT = os.path.dirname(os.path.dirname(os.path.dirname(os.path.abspath(__file__))))
sys.path.insert(0, os.path.join(ROOT, 'src'))
warnings.filterwarnings('ignore')

import numpy as np
import pandas as pd
from scipy import sparse
import mbi
from mbi import Dataset, Domain, PublicInference

assert os.path.abspath(mbi.__file__).startswith(ROOT), mbi.__file__


def marginal(df, domain, clique, weights):
    attrs = [clique] if isinstance(clique, str) else list(clique)
    shape = [domain.config[a] for a in attrs]
    out = np.zeros(shape)
    np.add.at(out, tuple(df[attrs].to_numpy().astype(np.int64).T), weights)
    return out.ravel()


def true_loss(df, domain, measurements, weights):
    loss = 0.0
    for Q, y, noise, cl in measurements:
        r = (Q @ marginal(df, domain, cl, weights) - y) / noise
        loss += 0.5 * float(r @ r)
    return loss


def reference_total(measurements):
    """ minimum-variance unbiased estimate of the total, by dense linear algebra """
    est, var = [], []
    for Q, y, noise, cl in measurements:
        A = Q.toarray() if sparse.issparse(Q) else np.asarray(Q, dtype=float)
        ones = np.ones(A.shape[1])
        v = np.linalg.pinv(A.T) @ ones          # minimum-norm solution of A^T v = 1
        if np.allclose(A.T @ v, ones):
            est.append(float(v @ y))
            var.append(noise ** 2 * float(v @ v))
    if not est:
        return 1.0
    w = 1.0 / np.array(var)
    return max(1.0, float(w @ np.array(est) / w.sum()))


def prefix(n):
    return np.tril(np.ones((n, n)))


def first_cells(n, k):
    return sparse.eye(n, format='csr')[:k]      # does not determine the total


rng = np.random.RandomState(19)
domain = Domain(['a', 'b', 'c'], [5, 4, 3])
N = 2000
priv = pd.DataFrame({a: rng.choice(k, size=N, p=(np.arange(k) + 1.0) / (np.arange(k) + 1.0).sum())
                     for a, k in zip(domain.attrs, domain.shape)})
pub = pd.DataFrame({a: rng.randint(0, k, size=350) for a, k in zip(domain.attrs, domain.shape)})
ones = np.ones(N)


def M(cl, noise, Q=None):
    x = marginal(priv, domain, cl, ones)
    Q = sparse.eye(x.size, format='csr') if Q is None else Q
    return (Q, Q @ x + rng.normal(0, noise, Q.shape[0]), noise, cl)


CASES = [
    ('given-total',        [M(('a', 'b'), 5.0), M(('c',), 40.0)], 2000),
    ('given-total-float',  [M(('a',), 1.0), M(('b', 'c'), 30.0)], 1234.5),
    ('auto-single',        [M(('a', 'b'), 20.0)], None),
    ('auto-same-noise',    [M(('a', 'b'), 10.0), M(('b', 'c'), 10.0), M(('a',), 10.0)], None),
    # unbounded-DP use: no total, measurements taken with different noise scales
    ('auto-mixed-noise',   [M(('a',), 1.0), M(('a', 'b', 'c'), 60.0)], None),
    ('auto-mixed-noise-2', [M(('b', 'c'), 80.0), M(('c',), 2.0), M(('a',), 25.0, prefix(5))], None),
    ('auto-partial-query', [M(('a',), 3.0, first_cells(5, 3)), M(('b',), 30.0), M(('c',), 4.0)], None),
    ('auto-unidentified',  [M(('a',), 3.0, first_cells(5, 2))], None),
]

failures, lines = [], []
for name, measurements, total in CASES:
    before = pub.copy()
    engine = PublicInference(Dataset(pub, domain))
    est = engine.estimate(measurements, total=total)
    w = np.asarray(est.weights, dtype=float)

    bad = []
    if w.shape != (len(pub),):
        bad.append('expected %d weights, got shape %s' % (len(pub), w.shape))
    if not np.all(np.isfinite(w)) or not np.all(w >= 0):
        bad.append('weights are not all finite and non-negative')
    T = float(w.sum())
    want = float(total) if total is not None else reference_total(measurements)
    if abs(T - want) > 1e-6 * want:
        bad.append('weights sum to %.4f but the %s total is %.4f'
                   % (T, 'given' if total is not None else 'minimum-variance estimate of the', want))
    if not est.df.equals(before) or not pub.equals(before):
        bad.append('public records were changed')
    uniform = np.ones(len(pub)) * T / len(pub)
    l_uni = true_loss(before, domain, measurements, uniform)
    l_fit = true_loss(before, domain, measurements, w)
    if not l_fit <= l_uni * (1 + 1e-9) + 1e-9:
        bad.append('reweighted loss %.6f is worse than the uniform loss %.6f' % (l_fit, l_uni))
    for b in bad:
        failures.append('%s: %s' % (name, b))
    h = hashlib.sha256(np.round(w, 8).tobytes()).hexdigest()[:16]
    lines.append('%-19s total=%.6f expected=%.6f uniform=%.6f fitted=%.6f weights=%s'
                 % (name, T, want, l_uni, l_fit, h))

if failures:
    print('FAIL')
    for f in failures:
        print('  ' + f)
    sys.exit(1)
print('PASS')
for l in lines:
    print(l)
print('digest', hashlib.sha256('\n'.join(lines).encode()).hexdigest())

"""C19 / pair 1 -- the per-measurement variance inside estimate_total.

Clause checked: with total=None the returned weights sum to the ESTIMATED total, i.e.
the minimum-variance unbiased combination of the per-measurement total estimates
v_i.y_i (v_i the minimum-norm solution of Q_i^T v = 1, variance sigma_i^2 |v_i|^2),
floored at 1.  The reference value is computed here independently with a dense
pseudo-inverse.  The other clauses (valid weights, never worse than uniform with the
same total) are checked alongside.

Exit 0 + digest on correct code, exit 1 + explanation otherwise.
"""
import os, sys, hashlib, warnings
ROOT = os.path.dirname(os.path.dirname(os.path.dirname(os.path.abspath(__file__))))
sys.path.insert(0, ROOT)
sys.path.insert(0, os.path.join(ROOT, 'src'))
warnings.filterwarnings('ignore')

import numpy as np
import pandas as pd
from scipy import sparse
import mbi
from mbi import Dataset, Domain, PublicInference

assert os.path.abspath(mbi.__file__).startswith(ROOT), 'wrong mbi imported: %s' % mbi.__file__

failures, digest = [], []

def dense(Q):
    return Q.toarray() if sparse.issparse(Q) else np.asarray(Q, dtype=float)

def reference_total(measurements):
    """ inverse-variance weighted mean of the per-measurement estimates of the total """
    est, var = [], []
    for Q, y, noise, cl in measurements:
        A = dense(Q).T
        one = np.ones(A.shape[0])
        v = np.linalg.pinv(A) @ one
        if np.allclose(A @ v, one):
            est.append(v @ y)
            var.append(noise ** 2 * (v @ v))
    if not est:
        return 1.0
    est, var = np.array(est), np.array(var)
    return max(1.0, float(np.sum(est / var) / np.sum(1.0 / var)))

def loss_of(vectors, measurements):
    tot = 0.0
    for Q, y, noise, cl in measurements:
        d = (Q @ vectors[cl] - y) / noise
        tot += 0.5 * d @ d
    return float(tot)

def world(seed, attrs, shape, n_pub, n_priv, skew):
    prng = np.random.RandomState(seed)
    dom = Domain(attrs, shape)
    pub = pd.DataFrame({a: prng.randint(0, n, n_pub) for a, n in zip(attrs, shape)})
    priv = pd.DataFrame({a: np.minimum(prng.geometric(skew, n_priv) - 1, n - 1) for a, n in zip(attrs, shape)})
    return prng, Dataset(pub, dom), Dataset(priv, dom)

def measure(prng, private, cl, sigma, kind='identity'):
    x = private.project(cl).datavector()
    n = x.size
    if kind == 'identity':
        Q = np.eye(n)
    elif kind == 'sparse':
        Q = sparse.eye(n, format='csr')
    elif kind == 'with_total':          # identity plus an explicit total query (redundant rows)
        Q = np.vstack([np.eye(n), np.ones((1, n))])
    elif kind == 'partial':             # does not determine the total: first half of the cells only
        Q = np.eye(n)[: n // 2]
    y = Q @ x + prng.normal(0, sigma, Q.shape[0])
    return (Q, y, sigma, cl)

prng, public, private = world(11, ['a', 'b', 'c', 'd'], [2, 3, 4, 6], 80, 400, 0.45)

SCENARIOS = [
    ('one supporting measurement', [(('a', 'b'), 4.0, 'identity')], None),
    ('same clique size, same noise', [(('a', 'b'), 6.0, 'identity'), (('d',), 6.0, 'identity')], None),
    ('given total', [(('a',), 5.0, 'identity'), (('c', 'd'), 5.0, 'identity')], 350.5),
    # --- the regime in which the per-measurement variances matter: cliques of different sizes
    ('small and large clique, same noise', [(('a',), 15.0, 'identity'), (('c', 'd'), 15.0, 'identity')], None),
    ('mixed sizes, mixed noise, sparse + partial + redundant',
     [(('b',), 20.0, 'sparse'), (('b', 'd'), 12.0, 'identity'), (('a', 'c'), 9.0, 'with_total'), (('c', 'd'), 1.0, 'partial')], None),
]

for name, spec, total in SCENARIOS:
    meas = [measure(prng, private, cl, sig, kind) for cl, sig, kind in spec]
    engine = PublicInference(public)
    result = engine.estimate(meas, total=total)
    w = np.asarray(result.weights, dtype=float)
    n = public.records
    T = float(w.sum())
    want = float(total) if total is not None else reference_total(meas)

    if w.shape != (n,) or not np.all(np.isfinite(w)) or np.any(w < 0):
        failures.append('%s: invalid weights' % name)
    if not result.df.equals(public.df):
        failures.append('%s: result is not over the public records' % name)
    if not np.isclose(T, want, rtol=1e-7, atol=0):
        failures.append('%s: weights sum to %.6f but the minimum-variance estimate of the total from these '
                        'measurements is %.6f (per-measurement variances sigma^2*|v|^2 mis-weighted?)' % (name, T, want))
    cliques = [M[-1] for M in meas]
    fitted = loss_of({cl: result.project(cl).datavector() for cl in cliques}, meas)
    uniform = loss_of({cl: public.project(cl).datavector() * (T / n) for cl in cliques}, meas)
    if fitted > uniform * (1 + 1e-9) + 1e-9:
        failures.append('%s: reweighted loss %.6f worse than uniform %.6f' % (name, fitted, uniform))
    digest.append('%s | total=%.5f reference=%.5f uniform=%.4f fitted=%.4f w[:3]=%s'
                  % (name, T, want, uniform, fitted, np.array2string(w[:3], precision=4)))

if failures:
    print('FAIL')
    for f in failures:
        print('  -', f)
    sys.exit(1)
print('PASS')
for line in digest:
    print(line)
print('digest', hashlib.sha256('\n'.join(digest).encode()).hexdigest()[:16])

"""C19 / pair 2 -- the Dataset that carries the trial weights inside PublicInference.estimate.

Clause checked: the fit is "over the UNCHANGED public records": the caller's public
Dataset must come out of estimate() exactly as it went in (same records, still
unweighted), so that the uniformly weighted baseline computed from it after the fit
is the same one as before the fit, and a second fit / a second engine on the same
object starts from the same public data.

Exit 0 + digest on correct code, exit 1 + explanation otherwise.
"""
import os, sys, hashlib, warnings
ROOT = os.path.dirname(os.path.dirname(os.path.dirname(os.path.abspath(__file__))))
sys.path.insert(0, ROOT)
sys.path.insert(0, os.path.join(ROOT, 'src'))
warnings.filterwarnings('ignore')

import numpy as np
import pandas as pd
import mbi
from mbi import Dataset, Domain, PublicInference

assert os.path.abspath(mbi.__file__).startswith(ROOT), 'wrong mbi imported: %s' % mbi.__file__

failures = []
digest = []

def fail(msg):
    failures.append(msg)

def loss_of(data, measurements, metric):
    tot = 0.0
    for Q, y, noise, cl in measurements:
        d = (Q @ data.project(cl).datavector() - y) / noise
        tot += np.abs(d).sum() if metric == 'L1' else 0.5 * d @ d
    return float(tot)

def make(seed, attrs, shape, n_pub, n_priv, cliques, noise, skew):
    prng = np.random.RandomState(seed)
    dom = Domain(attrs, shape)
    pub = pd.DataFrame({a: prng.randint(0, n, n_pub) for a, n in zip(attrs, shape)})
    # private data is skewed and lives on a strict subset of the cells (public has records outside its support)
    priv = pd.DataFrame({a: np.minimum(prng.geometric(skew, n_priv) - 1, n - 1) // 1 for a, n in zip(attrs, shape)})
    public, private = Dataset(pub, dom), Dataset(priv, dom)
    meas = []
    for cl, sig in zip(cliques, noise):
        x = private.project(cl).datavector()
        meas.append((np.eye(x.size), x + prng.normal(0, sig, x.size), sig, cl))
    return public, meas

SCENARIOS = [
    # name, make-args, metric, total
    ('two-way L2 given total', (1, ['a', 'b', 'c'], [4, 3, 5], 60, 500, [('a', 'b'), ('b', 'c')], [5.0, 8.0], 0.45), 'L2', 500),
    ('mixed L2 estimated total', (2, ['a', 'b', 'c', 'd'], [3, 2, 4, 2], 40, 300, [('a',), ('c', 'd'), ('d', 'a')], [2.0, 6.0, 4.0], 0.5), 'L2', None),
    ('one-way L1 non-integer total', (3, ['u', 'v'], [6, 5], 25, 200, ['u', ('v',)], [3.0, 3.0], 0.4), 'L1', 187.5),
    ('single attribute', (4, ['z'], [7], 15, 120, [('z',)], [1.5], 0.35), 'L2', None),
]

for name, args, metric, total in SCENARIOS:
    public, meas = make(*args)
    n = public.records
    cliques = [M[-1] for M in meas]

    # --- snapshot of the caller's public dataset before the fit
    df_before = public.df.copy()
    w_before = public.weights
    vec_before = {cl: public.project(cl).datavector().copy() for cl in cliques}
    full_before = public.datavector().copy()

    engine = PublicInference(public, metric=metric)
    result = engine.estimate(meas, total=total)
    w = np.asarray(result.weights, dtype=float)
    T = w.sum()

    # --- generic validity of what is returned
    if w.shape != (n,) or not np.all(np.isfinite(w)) or np.any(w < 0):
        fail('%s: invalid weights returned' % name)
    if total is not None and not np.isclose(T, total, rtol=1e-9):
        fail('%s: weights sum to %r, total given %r' % (name, T, total))
    if not result.df.equals(df_before):
        fail('%s: the returned dataset is not over the public records' % name)

    # --- the clause: the caller's public dataset is untouched by the fit
    if not public.df.equals(df_before):
        fail('%s: public_data.df was modified by estimate()' % name)
    if public.weights is not w_before:
        fail('%s: estimate() left weights on the caller\'s public Dataset (public.weights is %s, was %r): '
             'the "uniform" public data is no longer uniform' % (name, type(public.weights).__name__, w_before))
    if not np.array_equal(public.datavector(), full_before):
        fail('%s: public.datavector() changed across estimate(): records were %d, histogram now sums to %.6g'
             % (name, n, public.datavector().sum()))
    for cl in cliques:
        if not np.array_equal(public.project(cl).datavector(), vec_before[cl]):
            fail('%s: public marginal on %r changed across estimate()' % (name, cl))

    # --- uniform baseline taken from the public object AFTER the fit (what a user would do)
    scale = T / n
    base_after = sum_loss = 0.0
    for Q, y, noise, cl in meas:
        d_after = (Q @ (scale * public.project(cl).datavector()) - y) / noise
        d_before = (Q @ (scale * vec_before[cl]) - y) / noise
        if metric == 'L1':
            base_after += np.abs(d_after).sum(); sum_loss += np.abs(d_before).sum()
        else:
            base_after += 0.5 * d_after @ d_after; sum_loss += 0.5 * d_before @ d_before
    fitted = loss_of(result, meas, metric)
    if not np.isclose(base_after, sum_loss, rtol=1e-12):
        fail('%s: uniform baseline computed from the public data moved from %.6f to %.6f after the fit'
             % (name, sum_loss, base_after))
    if fitted > sum_loss * (1 + 1e-9) + 1e-9:
        fail('%s: reweighted loss %.6f worse than uniform %.6f' % (name, fitted, sum_loss))

    # --- a second engine on the same public object must reproduce the first fit exactly
    again = PublicInference(public, metric=metric).estimate(meas, total=total)
    if not np.array_equal(np.asarray(again.weights), w):
        fail('%s: a fresh engine on the same public Dataset gives different weights the second time' % name)

    digest.append('%s | n=%d total=%.6f uniform=%.6f fitted=%.6f w[:3]=%s'
                  % (name, n, T, sum_loss, fitted, np.array2string(w[:3], precision=6)))

if failures:
    print('FAIL')
    for f in failures:
        print('  -', f)
    sys.exit(1)
print('PASS')
for line in digest:
    print(line)
print('digest', hashlib.sha256('\n'.join(digest).encode()).hexdigest()[:16])

""" C19 / pair 1 -- warm-started refits after some record weights have underflowed to exactly 0.

Checks, for every call of PublicInference.estimate in several call histories:
  one finite nonnegative weight per public record, summing to the total, records unchanged,
  and the reweighted data fits the measurements no worse than the uniformly weighted
  public data with the same total (loss recomputed here, independently of the library).
"""
import os, sys, hashlib, warnings
ROOT = os.path.dirname(os.path.dirname(os.path.dirname(os.path.abspath(__file__))))
sys.path.insert(0, os.path.join(ROOT, 'src'))
warnings.simplefilter('ignore')
import numpy as np
import pandas as pd
from mbi import Dataset, Domain, PublicInference

failures = []
digest = hashlib.sha256()
lines = []

def cell_index(df, dom, cl):
    cl = (cl,) if isinstance(cl, str) else tuple(cl)
    shape = [dom[a] for a in cl]
    return np.ravel_multi_index([df[a].values for a in cl], shape), int(np.prod(shape))

def my_loss(df, dom, w, measurements):
    """ 0.5 * sum_m |Q_m x_m(w) - y_m|^2 / sigma_m^2, from scratch """
    ans = 0.0
    for Q, y, noise, cl in measurements:
        idx, n = cell_index(df, dom, cl)
        x = np.bincount(idx, weights=w, minlength=n)
        r = (np.asarray(Q @ x) - y) / noise
        ans += 0.5*float(r @ r)
    return ans

def check(tag, pub, frozen, res, measurements, total):
    w = res.weights
    n = frozen.shape[0]
    ok = True
    def bad(msg):
        nonlocal ok
        ok = False
        failures.append('%s: %s' % (tag, msg))
    if w.shape != (n,): bad('expected %d weights, got shape %s' % (n, w.shape))
    if not np.all(np.isfinite(w)): bad('non-finite weights')
    if np.any(w < 0): bad('negative weights')
    if not np.isclose(w.sum(), total, rtol=1e-6, atol=0): bad('weights sum to %r, total is %r' % (w.sum(), total))
    if not (res.df.values.shape == frozen.shape and (res.df.values == frozen).all()): bad('public records changed')
    if not (pub.df.values == frozen).all(): bad('public dataset changed')
    mine = my_loss(pub.df, pub.domain, w, measurements)
    unif = my_loss(pub.df, pub.domain, np.ones(n)*total/n, measurements)
    if not mine <= unif*(1+1e-9) + 1e-9:
        bad('reweighted loss %.6g is WORSE than the uniform-weight loss %.6g (same total %g); '
            '%d records have weight exactly 0' % (mine, unif, total, int((w == 0).sum())))
    digest.update(np.ascontiguousarray(w).tobytes())
    lines.append('%-28s n=%3d total=%-8g loss=%.12e uniform=%.12e zeros=%d %s'
                 % (tag, n, total, mine, unif, int((w == 0).sum()), 'ok' if ok else 'VIOLATION'))

def noisy_marginal(df, dom, cl, scale_to, noise, prng):
    idx, n = cell_index(df, dom, cl)
    x = np.bincount(idx, minlength=n).astype(float)
    x *= scale_to / x.sum()
    return (np.eye(n), x + prng.normal(0, noise, n), noise, cl)

# ---------------------------------------------------------------- A: single calls
prng = np.random.RandomState(1901)
dom = Domain(['a', 'b', 'c'], [2, 3, 4])
for k in range(4):
    n = [12, 40, 75, 9][k]
    pubdf = pd.DataFrame({a: prng.randint(0, dom[a], n) for a in dom.attrs})
    privdf = pd.DataFrame({a: prng.randint(0, max(1, dom[a]-1), 300) for a in dom.attrs})  # last value of each attr unseen
    pub = Dataset(pubdf, dom)
    frozen = pub.df.values.copy()
    noise = [0.5, 2.0, 10.0, 30.0][k]
    total = [300, 300.0, 1234.5, 50][k]
    ms = [noisy_marginal(privdf, dom, cl, total, noise*(1+j), prng) for j, cl in enumerate([('a',), ('b', 'c'), ('a', 'c')])]
    eng = PublicInference(pub)
    check('A%d single call' % k, pub, frozen, eng.estimate(ms, total=total), ms, total)

# ---------------------------------------------------------------- B: refit after exact zeros
# round 1: the noisy count of a=1 is slightly negative, so the a=1 records are driven to weight exactly 0
# round 2: a fresh set of measurements (a different private table) puts all the mass on a=1
dom2 = Domain(['a', 'b'], [2, 3])
prng = np.random.RandomState(1902)
pubdf = pd.DataFrame({'a': [0]*6 + [1]*6, 'b': prng.randint(0, 3, 12)})
pub = Dataset(pubdf, dom2)
frozen = pub.df.values.copy()
eng = PublicInference(pub)
m1 = [(np.eye(2), np.array([1003.2, -3.2]), 1.0, ('a',))]
m2 = [(np.eye(2), np.array([0.0, 1000.0]), 1.0, ('a',))]
check('B round 1', pub, frozen, eng.estimate(m1, total=1000), m1, 1000)
check('B round 2 (warm start)', pub, frozen, eng.estimate(m2, total=1000), m2, 1000)

# ---------------------------------------------------------------- C: two rounds, 2-way marginal, changing total
prng = np.random.RandomState(1903)
pubdf = pd.DataFrame({'a': prng.randint(0, 2, 30), 'b': prng.randint(0, 3, 30)})
pub = Dataset(pubdf, dom2)
frozen = pub.df.values.copy()
eng = PublicInference(pub)
y1 = np.array([[400., 300., -6.], [310., -4., -5.]]).flatten()     # cells (.,2) and (1,1) missing from the private data
y2 = np.array([[0., 0., 250.], [0., 250., 0.]]).flatten()          # a later release where only those cells are populated
for r, (y, tot, sig) in enumerate([(y1, 1000, 2.0), (y2, 500, 2.0)]):
    ms = [(np.eye(6), y, sig, ('a', 'b'))]
    check('C round %d' % (r+1), pub, frozen, eng.estimate(ms, total=tot), ms, tot)

# ---------------------------------------------------------------- D: estimated total, warm start with a str clique
prng = np.random.RandomState(1904)
pubdf = pd.DataFrame({'a': prng.randint(0, 2, 20), 'b': prng.randint(0, 3, 20)})
pub = Dataset(pubdf, dom2)
frozen = pub.df.values.copy()
eng = PublicInference(pub)
for r, y in enumerate([np.array([80., 41., -2.5]), np.array([1.0, 3.0, 120.0])]):
    ms = [(np.eye(3), y, 1.5, 'b')]
    res = eng.estimate(ms)
    check('D round %d (total=None)' % (r+1), pub, frozen, res, ms, max(1, y.sum()))

print('\n'.join(lines))
print('digest', digest.hexdigest())
if failures:
    print('FAIL')
    for f in failures:
        print('  -', f)
    sys.exit(1)
print('PASS')

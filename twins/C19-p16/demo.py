""" C19 / pair 2 -- the total the weights sum to when no total is given.

With total=None, PublicInference.estimate must return weights summing to the minimum-variance
(inverse-variance weighted) unbiased estimate of the total derivable from the measurements
(floored at 1).  The reference value is recomputed here from scratch (pseudo-inverse, no lsmr).
"""
import os, sys, hashlib, warnings
ROOT = os.path.dirname(os.path.dirname(os.path.dirname(os.path.abspath(__file__))))
sys.path.insert(0, os.path.join(ROOT, 'src'))
warnings.simplefilter('ignore')
import numpy as np
import pandas as pd
from scipy import sparse
from mbi import Dataset, Domain, PublicInference
from mbi.public_inference import estimate_total

failures = []
digest = hashlib.sha256()
lines = []

def reference_total(measurements):
    num = den = 0.0
    for Q, y, sigma, cl in measurements:
        A = Q.toarray() if sparse.issparse(Q) else np.asarray(Q, dtype=float)
        one = np.ones(A.shape[1])
        v = np.linalg.pinv(A.T) @ one                    # min-norm v with v^T A = 1^T, if one exists
        if np.abs(A.T @ v - one).max() > 1e-6:
            continue                                     # the total is not answerable from this measurement
        var = sigma**2 * float(v @ v)                    # Var[v.y] for iid noise of std sigma
        num += float(v @ y) / var
        den += 1.0 / var
    return 1.0 if den == 0 else max(1.0, num/den)

def marginal(df, dom, cl, total, sigma, prng, Q=None):
    shape = [dom[a] for a in cl]
    idx = np.ravel_multi_index([df[a].values for a in cl], shape)
    x = np.bincount(idx, minlength=int(np.prod(shape))).astype(float)
    x *= total / x.sum()
    Q = np.eye(x.size) if Q is None else Q
    return (Q, Q @ x + prng.normal(0, sigma, Q.shape[0]), sigma, cl)

def run(tag, pub, frozen, ms):
    ref = reference_total(ms)
    got = float(estimate_total(ms))
    res = PublicInference(pub).estimate(ms)             # total=None
    w = res.weights
    ok = True
    def bad(msg):
        nonlocal ok
        ok = False
        failures.append('%s: %s' % (tag, msg))
    if not np.isclose(got, ref, rtol=1e-6, atol=0):
        bad('estimate_total gives %.6f, the minimum-variance estimate is %.6f' % (got, ref))
    if w.shape != (frozen.shape[0],) or not np.all(np.isfinite(w)) or np.any(w < 0):
        bad('invalid weights')
    if not np.isclose(w.sum(), ref, rtol=1e-6, atol=0):
        bad('weights sum to %.6f, expected the estimated total %.6f' % (w.sum(), ref))
    if not (res.df.values == frozen).all():
        bad('public records changed')
    digest.update(np.float64(got).tobytes()); digest.update(np.ascontiguousarray(w).tobytes())
    lines.append('%-34s estimate_total=%.9f reference=%.9f sum(w)=%.9f %s'
                 % (tag, got, ref, w.sum(), 'ok' if ok else 'VIOLATION'))

dom = Domain(['a', 'b', 'c'], [2, 3, 4])
prng = np.random.RandomState(1921)
pubdf = pd.DataFrame({a: prng.randint(0, dom[a], 40) for a in dom.attrs})
privdf = pd.DataFrame({a: prng.randint(0, dom[a], 500) for a in dom.attrs})
pub = Dataset(pubdf, dom)
frozen = pub.df.values.copy()

# A: one measurement
run('A one marginal', pub, frozen, [marginal(privdf, dom, ('a',), 1000, 5.0, prng)])
# B: two marginals over tables of the same size with the same noise (equal variances)
run('B equal variances', pub, frozen, [marginal(privdf, dom, ('b',), 1000, 4.0, prng),
                                       marginal(privdf, dom, ('b',), 1000, 4.0, prng)])
# C: a precise small marginal and a noisy large one (different sigma AND different |v|^2)
run('C sigma 1 vs 60', pub, frozen, [marginal(privdf, dom, ('a',), 1000, 1.0, prng),
                                     marginal(privdf, dom, ('b', 'c'), 1000, 60.0, prng)])
# D: same sigma, tables of different size (2 cells vs 12 cells), plus an unanswerable measurement
pick = np.zeros((1, 3)); pick[0, 1] = 1.0
run('D same sigma, sizes 2/12', pub, frozen, [marginal(privdf, dom, ('a',), 700, 25.0, prng),
                                              marginal(privdf, dom, ('b', 'c'), 700, 25.0, prng),
                                              marginal(privdf, dom, ('b',), 700, 0.1, prng, Q=pick)])
# E: scaled and sparse query matrices, three noise levels
run('E scaled / sparse Q', pub, frozen, [marginal(privdf, dom, ('c',), 2500, 2.0, prng, Q=4.0*np.eye(4)),
                                         marginal(privdf, dom, ('a', 'b'), 2500, 30.0, prng, Q=sparse.identity(6, format='csr')),
                                         marginal(privdf, dom, ('a', 'c'), 2500, 9.0, prng, Q=np.vstack([np.eye(8), np.ones((1, 8))]))])
# F: nothing answers the total -> 1 ; G: low signal -> floor at 1
run('F total unanswerable', pub, frozen, [marginal(privdf, dom, ('b',), 300, 1.0, prng, Q=pick)])
run('G floor at 1', pub, frozen, [(np.eye(2), np.array([-3.0, 2.5]), 2.0, ('a',)),
                                  (np.eye(3), np.array([0.4, -0.2, 0.1]), 0.5, ('b',))])

print('\n'.join(lines))
print('digest', digest.hexdigest())
if failures:
    print('FAIL')
    for f in failures:
        print('  -', f)
    sys.exit(1)
print('PASS')

""" C19 / pair 1 -- PublicInference.estimate: the total the weights must sum to.

Checks, on several call sequences, that the weights returned by
PublicInference.estimate sum to the GIVEN total, or (total=None) to the minimum
variance estimate of the total computed from the measurements OF THAT CALL,
that there is one finite nonnegative weight per public record, and that the fit
is not worse than the uniformly weighted public data with the same total.
"""
import os, sys, hashlib, warnings
warnings.filterwarnings('ignore')
ROOT = os.path.dirname(os.path.dirname(os.path.dirname(os.path.abspath(__file__))))
sys.path.insert(0, os.path.join(ROOT, 'src'))
import numpy as np
import pandas as pd
from scipy import sparse
from mbi import Dataset, Domain, PublicInference
import mbi
assert os.path.abspath(mbi.__file__).startswith(ROOT), mbi.__file__

dom = Domain(['A', 'B', 'C'], [3, 4, 2])
CLIQUES = [('A', 'B'), ('B', 'C'), ('A',), 'C']

def make_data(seed, n):
    prng = np.random.RandomState(seed)
    p = prng.dirichlet(np.ones(dom.size()) * 0.4)
    cells = prng.choice(dom.size(), size=n, p=p)
    vals = np.array(np.unravel_index(cells, dom.shape)).T
    return Dataset(pd.DataFrame(vals, columns=dom.attrs), dom)

def measure(data, seed, sigmas):
    prng = np.random.RandomState(seed)
    out = []
    for cl, sigma in zip(CLIQUES, sigmas):
        x = data.project(cl).datavector()
        y = x + prng.normal(0, sigma, x.size)
        out.append((sparse.eye(x.size), y, sigma, cl))
    return out

def oracle_total(measurements):
    # identity queries: the BLUE of the total from one measurement is sum(y), variance sigma^2 * n
    est = np.array([y.sum() for Q, y, s, cl in measurements])
    var = np.array([s**2 * y.size for Q, y, s, cl in measurements])
    return max(1.0, float(np.sum(est / var) / np.sum(1.0 / var)))

def l2_loss(data, measurements):
    return sum(0.5 * np.sum(((Q @ data.project(cl).datavector() - y) / s)**2) for Q, y, s, cl in measurements)

public = make_data(1, 300)
priv_a = make_data(2, 1000)
priv_b = make_data(3, 4000)
meas_a = measure(priv_a, 10, [5.0, 8.0, 3.0, 4.0])
meas_b = measure(priv_b, 11, [6.0, 2.0, 9.0, 5.0])

failures, digest = [], hashlib.sha256()

def check(label, est, measurements, expect_total, fresh):
    w = est.weights
    digest.update(np.ascontiguousarray(w).tobytes())
    print('%-44s sum=%.6f expected=%.6f' % (label, w.sum(), expect_total))
    if w.shape != (public.records,): failures.append(label + ': wrong number of weights')
    if not (np.all(np.isfinite(w)) and np.all(w >= 0)): failures.append(label + ': weights not finite / nonnegative')
    if not est.df.equals(public.df): failures.append(label + ': public records changed')
    if abs(w.sum() - expect_total) > 1e-6 * expect_total:
        failures.append('%s: weights sum to %.4f, but the total to use is %.4f' % (label, w.sum(), expect_total))
    if fresh:
        unif = Dataset(public.df, dom, np.ones(public.records) * expect_total / public.records)
        if l2_loss(est, measurements) > l2_loss(unif, measurements) * (1 + 1e-9):
            failures.append(label + ': fits worse than the uniform public data')

# 1. fresh engine, estimated total
check('fresh, total=None (a)', PublicInference(public).estimate(meas_a), meas_a, oracle_total(meas_a), True)
# 2. fresh engine, given total
check('fresh, total=777 (a)', PublicInference(public).estimate(meas_a, total=777), meas_a, 777.0, True)
# 3. one engine, two measurement sets, both with estimated total
eng = PublicInference(public)
check('reused engine #1, total=None (a)', eng.estimate(meas_a), meas_a, oracle_total(meas_a), True)
check('reused engine #2, total=None (b)', eng.estimate(meas_b), meas_b, oracle_total(meas_b), False)
# 4. one engine, a given total first, then the estimated one
eng = PublicInference(public)
check('reused engine #1, total=2500 (b)', eng.estimate(meas_b, total=2500), meas_b, 2500.0, True)
check('reused engine #2, total=None (b)', eng.estimate(meas_b), meas_b, oracle_total(meas_b), False)
# 5. one engine, estimated first, then given
check('reused engine #3, total=1234.5 (b)', eng.estimate(meas_b, total=1234.5), meas_b, 1234.5, False)

print('digest', digest.hexdigest())
if failures:
    print('FAIL')
    for f in failures: print('  -', f)
    sys.exit(1)
print('PASS')

""" C19 / pair 2 -- which measurements PublicInference.estimate actually fits.

For several measurement sets (cliques given as tuples, as 1-tuples and as plain
attribute names, short and long attribute names, L2 and L1 metric) the demo
recomputes the loss of the returned weighted dataset over ALL measurements that
were passed in and compares it with the loss of the uniformly weighted public
data with the same total.  It also checks the weights themselves.
"""
import os, sys, hashlib, warnings
warnings.filterwarnings('ignore')
ROOT = os.path.dirname(os.path.dirname(os.path.dirname(os.path.abspath(__file__))))
sys.path.insert(0, os.path.join(ROOT, 'src'))
import numpy as np
import pandas as pd
from scipy import sparse
from mbi import Dataset, Domain, PublicInference
import mbi
assert os.path.abspath(mbi.__file__).startswith(ROOT), mbi.__file__

def dataset(dom, cells):
    vals = np.array(np.unravel_index(cells, dom.shape)).T
    return Dataset(pd.DataFrame(vals, columns=dom.attrs), dom)

def loss(data, measurements, metric):
    ans = 0.0
    for Q, y, s, cl in measurements:
        r = (Q @ data.project(cl).datavector() - y) / s
        ans += np.abs(r).sum() if metric == 'L1' else 0.5 * (r @ r)
    return ans

failures, digest = [], hashlib.sha256()

def run(label, public, measurements, total, metric):
    est = PublicInference(public, metric=metric).estimate(measurements, total=total)
    w = est.weights
    digest.update(np.ascontiguousarray(w).tobytes())
    unif = Dataset(public.df, public.domain, np.ones(public.records) * w.sum() / public.records)
    got, ref = loss(est, measurements, metric), loss(unif, measurements, metric)
    print('%-34s %s  loss=%.6f  uniform=%.6f' % (label, metric, got, ref))
    if w.shape != (public.records,) or not np.all(np.isfinite(w)) or not np.all(w >= 0):
        failures.append(label + ': invalid weights')
    if total is not None and abs(w.sum() - total) > 1e-6 * total:
        failures.append(label + ': weights do not sum to the given total')
    if not est.df.equals(public.df):
        failures.append(label + ': public records changed')
    if got > ref * (1 + 1e-9):
        failures.append('%s (%s): loss of the reweighted data %.4f exceeds the loss %.4f of the uniform public data'
                        % (label, metric, got, ref))

# --- scenario 1: short attribute names, cliques as tuples / 1-tuples / names ---
dom1 = Domain(['A', 'B', 'C'], [3, 4, 2])
prng = np.random.RandomState(0)
pub1 = dataset(dom1, prng.choice(dom1.size(), 200, p=prng.dirichlet(np.ones(dom1.size()))))
prv1 = dataset(dom1, prng.choice(dom1.size(), 900, p=prng.dirichlet(np.ones(dom1.size()) * 0.3)))
def measure(data, cliques, sigmas, seed):
    prng = np.random.RandomState(seed)
    out = []
    for cl, s in zip(cliques, sigmas):
        x = data.project(cl).datavector()
        out.append((sparse.eye(x.size), x + prng.normal(0, s, x.size), s, cl))
    return out
m1 = measure(prv1, [('A', 'B'), ('C',), 'B', ('C', 'A'), 'A'], [4.0, 2.0, 3.0, 6.0, 1.0], 5)
for metric in ['L2', 'L1']:
    run('short names, mixed cliques', pub1, m1, None, metric)
    run('short names, given total', pub1, m1, 650, metric)

# --- scenario 2: long attribute names ---
dom2 = Domain(['age', 'sex', 'edu'], [4, 2, 3])
# public data: age and sex strongly dependent (young <-> sex 0, old <-> sex 1)
prng = np.random.RandomState(1)
age = prng.randint(0, 4, 400)
sex = np.where(prng.rand(400) < 0.9, (age >= 2).astype(int), (age < 2).astype(int))
edu = prng.randint(0, 3, 400)
pub2 = Dataset(pd.DataFrame({'age': age, 'sex': sex, 'edu': edu}), dom2)
N = 2000.0
# private data: same age distribution as the public data (measured accurately),
# but a very different sex ratio (measured with more noise)
y_age = pub2.project('age').datavector() * N / pub2.records
y_sex = np.array([0.9, 0.1]) * N
y_edu = pub2.project(('edu',)).datavector() * N / pub2.records
tuples = [(sparse.eye(4), y_age, 2.0, ('age',)), (sparse.eye(2), y_sex, 40.0, ('sex',)), (sparse.eye(3), y_edu, 30.0, ('edu',))]
names = [(sparse.eye(4), y_age, 2.0, 'age'), (sparse.eye(2), y_sex, 40.0, ('sex',)), (sparse.eye(3), y_edu, 30.0, 'edu')]
pairs = [(sparse.eye(8), pub2.project(('age', 'sex')).datavector() * N / pub2.records, 25.0, ('age', 'sex')),
         (sparse.eye(4), y_age, 2.0, 'age'), (sparse.eye(2), y_sex, 40.0, 'sex')]
for metric in ['L2', 'L1']:
    run('long names, 1-tuples', pub2, tuples, N, metric)
    run('long names, attribute names', pub2, names, N, metric)
    run('long names, names, total=None', pub2, names, None, metric)
    run('long names, pair + names', pub2, pairs, N, metric)

print('digest', digest.hexdigest())
if failures:
    print('FAIL')
    for f in failures: print('  -', f)
    sys.exit(1)
print('PASS')

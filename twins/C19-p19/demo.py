import os, sys, hashlib, warnings
warnings.filterwarnings('ignore')
ROOT = os.path.dirname(os.path.dirname(os.path.dirname(os.path.abspath(__file__))))
sys.path.insert(0, os.path.join(ROOT, 'src'))
import numpy as np, pandas as pd
from mbi import Dataset, Domain, PublicInference

def table(df, weights, cl, dom):
    """ weighted contingency table over the attributes cl (in THAT order), computed without mbi """
    cl = [cl] if type(cl) is str else list(cl)
    shape = tuple(dom[a] for a in cl)
    out = np.zeros(shape)
    np.add.at(out, tuple(df[a].to_numpy() for a in cl), weights)
    return out.flatten()

def l2(df, weights, meas, dom):
    return sum(0.5*np.sum(((Q @ table(df, weights, cl, dom) - y)/s)**2) for Q, y, s, cl in meas)

def skewed(rng, dom, N, conc):
    # a=low, b=high: strongly asymmetric joint distribution
    cols = {}
    for i, a in enumerate(dom.attrs):
        p = rng.dirichlet(np.ones(dom[a])*conc)
        cols[a] = rng.choice(dom[a], size=N, p=p)
    return pd.DataFrame(cols)

def case(name, seed, shape, cliques, noises, n_pub, N, total='given', conc=0.3):
    rng = np.random.RandomState(seed)
    attrs = list('abcd')[:len(shape)]
    dom = Domain(attrs, shape)
    priv = skewed(rng, dom, N, conc)
    pubdf = pd.DataFrame({a: rng.randint(0, s, n_pub) for a, s in zip(attrs, shape)})
    before = pubdf.copy()
    meas = []
    for cl, s in zip(cliques, noises):
        x = table(priv, np.ones(N), cl, dom)
        meas.append((np.eye(x.size), x + rng.normal(0, s, x.size), s, cl))
    eng = PublicInference(Dataset(pubdf, dom))
    tot = float(N) if total == 'given' else None
    est = eng.estimate(meas, total=tot)
    w = np.asarray(est.weights)
    problems = []
    if w.shape != (n_pub,): problems.append('weight count %s != %d' % (w.shape, n_pub))
    if not np.all(np.isfinite(w)) or np.any(w < 0): problems.append('weights not finite/nonnegative')
    if tot is not None and abs(w.sum() - tot) > 1e-6*tot: problems.append('sum %r != total %r' % (w.sum(), tot))
    if not est.df.equals(before[attrs]) or not pubdf.equals(before): problems.append('public records changed')
    fit = l2(before, w, meas, dom)
    uni = l2(before, np.ones(n_pub)*w.sum()/n_pub, meas, dom)
    if fit > uni*(1+1e-9) + 1e-9:
        problems.append('reweighted data fits WORSE than uniform: %.6g > %.6g' % (fit, uni))
    return name, problems, (round(float(w.sum()), 4), round(float(fit), 4), round(float(uni), 4), [round(float(v), 5) for v in w[:5]])

CASES = [
    # ordinary configurations
    dict(name='one-clique',      seed=1, shape=(4, 4),    cliques=[('a', 'b')], noises=[2.0], n_pub=40, N=300),
    dict(name='two-cliques',     seed=2, shape=(3, 5, 2), cliques=[('a', 'b'), ('b', 'c')], noises=[1.0, 5.0], n_pub=60, N=500),
    dict(name='repeated-clique', seed=3, shape=(4, 4),    cliques=[('a', 'b'), ('a', 'b'), ('a',)], noises=[3.0, 1.0, 2.0], n_pub=50, N=400),
    dict(name='reversed-only',   seed=4, shape=(4, 4),    cliques=[('b', 'a')], noises=[1.0], n_pub=50, N=400),
    dict(name='estimated-total', seed=5, shape=(3, 3),    cliques=[('a', 'b'), ('b',)], noises=[1.0, 1.0], n_pub=30, N=250, total='est'),
    # the same pair of attributes measured twice, in the two possible orders
    dict(name='both-orders',     seed=100, shape=(4, 4),   cliques=[('a', 'b'), ('b', 'a')], noises=[200.0, 0.5], n_pub=64, N=600, conc=0.05),
    dict(name='both-orders-3x3', seed=120, shape=(3, 3),   cliques=[('a', 'b'), ('b', 'a')], noises=[50.0, 0.5], n_pub=20, N=600, conc=0.05),
    dict(name='both-orders-5x5', seed=105, shape=(5, 5),   cliques=[('a', 'b'), ('b', 'a')], noises=[50.0, 0.5], n_pub=20, N=600, conc=0.05),
    dict(name='both-orders-3',   seed=7, shape=(5, 5, 2), cliques=[('c', 'a'), ('a', 'b'), ('b', 'a')], noises=[5.0, 300.0, 1.0], n_pub=80, N=800, conc=0.05),
]

def main():
    failures, lines = [], []
    for c in CASES:
        name, problems, dig = case(**c)
        lines.append('%s %r' % (name, dig))
        failures += ['%s: %s' % (name, p) for p in problems]
    for l in lines: print(l)
    print('digest', hashlib.sha256('\n'.join(lines).encode()).hexdigest()[:16])
    if failures:
        print('FAIL')
        for f in failures: print('  ' + f)
        sys.exit(1)
    print('PASS')

main()

"""C19 / pair 2 -- weighted contingency tables behind PublicInference (Dataset.datavector).

Checks, on several public datasets, that PublicInference.estimate returns one finite
nonnegative weight per (unchanged) public record, summing to the given / estimated total,
and that the reweighted public data -- with the loss RECOMPUTED HERE from the returned
weights with plain numpy, not with the library's own marginals -- never fits the
measurements worse than the uniformly weighted public data with the same total.

Some of the public datasets do not contain every category of every attribute (a public
sample that lacks the top or the bottom category of an attribute that the private data
does populate).

exit 0 + "PASS" + digest  : property holds on every case
exit 1 + "FAIL" + reasons : property violated
"""
import os, sys, hashlib, warnings

ROOT = os.path.dirname(os.path.dirname(os.path.dirname(os.path.abspath(__file__))))
sys.path.insert(0, os.path.join(ROOT, 'src'))
warnings.simplefilter('ignore')

import numpy as np
import pandas as pd
import mbi
assert os.path.abspath(mbi.__file__).startswith(ROOT + os.sep), 'wrong mbi: %s' % mbi.__file__
from mbi import Dataset, Domain
from mbi.public_inference import PublicInference

ATTRS = ['a', 'b', 'c']
SHAPE = [4, 3, 2]
DOMAIN = Domain(ATTRS, SHAPE)


# ---------------------------------------------------------------- independent reference
def table(values, shape, weights):
    """weighted contingency table, straight from the definition"""
    ans = np.zeros(shape)
    np.add.at(ans, tuple(values.T), weights)
    return ans


def true_loss(df, weights, measurements):
    loss = 0.0
    for Q, y, noise, cl in measurements:
        shape = [SHAPE[ATTRS.index(x)] for x in cl]
        x = table(df[list(cl)].values, shape, weights).flatten()
        diff = (Q @ x - y) / noise
        loss += 0.5 * float(diff @ diff)
    return loss


def reference_total(measurements):
    # all measurements below use identity queries: sum(y) estimates the total with
    # variance noise^2 * len(y); combine by inverse variance, never below one record
    est = np.array([y.sum() for _, y, _, _ in measurements])
    var = np.array([noise ** 2 * y.size for _, y, noise, _ in measurements])
    return max(1.0, float(np.sum(est / var) / np.sum(1.0 / var)))


# ---------------------------------------------------------------- inputs
def private_counts(rng, pa, dep, n=4000):
    """private records with a prescribed distribution over attribute 'a';
    dep in [0,1] is how strongly b and c depend on a"""
    a = rng.choice(4, size=n, p=pa)
    shift = rng.choice(3, size=n, p=[1/3 + dep/3, 1/3, 1/3 - dep/3])
    b = (np.where(rng.random(n) < dep, a, 0) + shift) % 3
    c = (rng.random(n) < 0.5 + dep * (0.1 * a - 0.15)).astype(int)
    return pd.DataFrame({'a': a, 'b': b, 'c': c})


def measure(rng, priv, cliques, noises):
    out = []
    for cl, noise in zip(cliques, noises):
        shape = [SHAPE[ATTRS.index(x)] for x in cl]
        x = table(priv[list(cl)].values, shape, np.ones(len(priv))).flatten()
        y = x + rng.normal(scale=noise, size=x.size)
        out.append((np.eye(x.size), y, float(noise), cl))
    return out


def public_frame(rng, n, a_values):
    a = rng.choice(a_values, size=n)
    b = rng.integers(0, 3, size=n)
    c = rng.integers(0, 2, size=n)
    # extra column that is not part of the domain, and a non-trivial column order
    return pd.DataFrame({'c': c, 'junk': np.arange(n), 'a': a, 'b': b})


def cases():
    cliques = [('a',), ('a', 'b'), ('b', 'c'), ('c',)]
    noises = [5.0, 20.0, 10.0, 2.0]
    rng = np.random.default_rng(1906)
    p_mid = [0.17, 0.25, 0.57, 0.01]
    p_low = [0.78, 0.11, 0.04, 0.07]
    p_end = [0.20, 0.13, 0.03, 0.64]
    spec = [
        # name                      a-values in public data   private p(a)  dep   total
        ('full-support',            [0, 1, 2, 3],             p_mid,        0.8,  None),
        ('full-support-total',      [0, 1, 2, 3],             p_low,        0.8,  2500.0),
        ('full-support-indep',      [0, 1, 2, 3],             p_end,        0.0,  None),
        ('public-lacks-a=3',        [0, 1, 2],                p_mid,        0.0,  None),
        ('public-lacks-a=3-dep',    [0, 1, 2],                p_mid,        0.8,  None),
        ('public-lacks-a=3-total',  [0, 1, 2],                p_mid,        0.0,  3000.0),
        ('public-lacks-a=0',        [1, 2, 3],                p_low,        0.0,  None),
        ('public-only-a=0,2',       [0, 2],                   p_end,        0.3,  None),
    ]
    for name, avals, pa, dep, total in spec:
        priv = private_counts(rng, pa, dep)
        meas = measure(rng, priv, cliques, noises)
        pub = public_frame(rng, 240, avals)
        yield name, pub, meas, total


# ---------------------------------------------------------------- the check
def check(name, pub, meas, total, problems, digest):
    before = pub.copy(deep=True)
    data = Dataset(pub, DOMAIN)
    engine = PublicInference(data)
    est = engine.estimate(meas, total=total)
    w = np.asarray(est.weights)
    want_total = reference_total(meas) if total is None else float(total)

    def bad(msg):
        problems.append('%s: %s' % (name, msg))

    if w.shape != (len(pub),):
        bad('weights have shape %s for %d public records' % (w.shape, len(pub)))
        return
    if not np.isfinite(w).all():
        bad('%d non-finite weights' % (~np.isfinite(w)).sum())
        return
    if (w < 0).any():
        bad('negative weights')
    if abs(w.sum() - want_total) > 1e-6 * want_total:
        bad('weights sum to %.6f, total is %.6f' % (w.sum(), want_total))
    if not pub.equals(before):
        bad('the public dataframe was modified')
    if not np.array_equal(est.df.values, before[ATTRS].values) or list(est.df.columns) != ATTRS:
        bad('returned dataset is not over the public records')

    uniform = np.ones(len(pub)) * want_total / len(pub)
    l_unif = true_loss(before, uniform, meas)
    l_fit = true_loss(before, w, meas)
    if l_fit > l_unif * (1 + 1e-9):
        bad('reweighted public data fits WORSE than uniform weights: '
            'loss %.6g > %.6g (recomputed from the returned weights)' % (l_fit, l_unif))

    line = '%-24s n=%d total=%.6f uniform=%.8g fitted=%.8g sha=%s' % (
        name, len(pub), w.sum(), l_unif, l_fit, hashlib.sha256(w.tobytes()).hexdigest()[:16])
    digest.append(line)


def main():
    problems, digest = [], []
    for name, pub, meas, total in cases():
        check(name, pub, meas, total, problems, digest)
    if problems:
        print('FAIL')
        for p in problems:
            print('  ' + p)
        for line in digest:
            print('  [info] ' + line)
        return 1
    print('PASS')
    for line in digest:
        print(line)
    print('digest', hashlib.sha256('\n'.join(digest).encode()).hexdigest())
    return 0


if __name__ == '__main__':
    sys.exit(main())

"""C19 / round 14 / pair 1 -- estimate_total when the measurements carry no usable
information about the total (infinite / overflowing noise scales).

Checks, for several measurement sets, the clauses of C19 on a FRESH engine:
  one finite nonnegative weight per public record, summing to the given or
  estimated total, records unchanged, and a fit never worse than uniform weights.
Exit 0 + digest when every clause holds, exit 1 otherwise.
"""
import os, sys, hashlib, warnings
ROOT = os.path.dirname(os.path.dirname(os.path.dirname(os.path.abspath(__file__))))
sys.path.insert(0, os.path.join(ROOT, 'src'))
warnings.simplefilter('ignore')
import numpy as np
import pandas as pd
from scipy import sparse
import mbi
from mbi import Dataset, Domain
from mbi.public_inference import PublicInference

assert os.path.abspath(mbi.__file__).startswith(ROOT), mbi.__file__
np.seterr(all='ignore')

dom = Domain(['a', 'b', 'c'], [3, 4, 1])       # c is a size-1 attribute
prng = np.random.RandomState(1914)
N = 60
pub_df = pd.DataFrame({'a': prng.randint(0, 3, N), 'b': prng.randint(0, 3, N), 'c': np.zeros(N, int)})
# b == 3 never occurs in the public data; a == 0 records get no private support below
public = Dataset(pub_df, dom)

true_a = np.array([0., 300., 700.])
true_b = np.array([100., 200., 300., 400.])
I3, I4 = sparse.eye(3, format='csr'), sparse.eye(4, format='csr')
contrast = np.array([[1., -1., 0.], [0., 1., -1.]])      # rows do not span the all-ones vector
noise = prng.normal(size=16)


def marginal(col, w, n):
    return np.bincount(pub_df[col].values, weights=w, minlength=n)


def loss_of(w, measurements, metric):
    tot = 0.0
    for Q, y, sigma, cl in measurements:
        col = cl if type(cl) is str else cl[0]
        r = (Q @ marginal(col, w, dom.size(col)) - y) / sigma
        tot += np.abs(r).sum() if metric == 'L1' else 0.5 * float(r @ r)
    return tot


def reference_total(measurements):
    """ independent inverse-variance estimate; measurements without finite
    information about the total do not determine it -> the documented fallback 1 """
    num = den = 0.0
    for Q, y, sigma, cl in measurements:
        Qd = Q.toarray() if sparse.issparse(Q) else np.asarray(Q)
        v, res = np.linalg.lstsq(Qd.T, np.ones(Qd.shape[1]), rcond=None)[:2]
        if not np.allclose(Qd.T @ v, 1.0):
            continue
        var = float(sigma) ** 2 * float(v @ v) if np.isfinite(sigma) and sigma < 1e150 else np.inf
        if np.isfinite(var):
            num += float(v @ y) / var
            den += 1.0 / var
    return max(1.0, num / den) if den > 0 else 1.0


CASES = [
    ('finite noise, estimated total', 'L2', None,
     [(I3, true_a + 5 * noise[:3], 5.0, 'a'), (I4, true_b + 20 * noise[3:7], 20.0, ('b',))]),
    ('finite noise, given total', 'L2', 250.0,
     [(I3, true_a / 4 + noise[:3], 1.0, ('a',)), (contrast, contrast @ true_a / 4, 2.0, 'a')]),
    ('L1 metric, estimated total', 'L1', None,
     [(I4, true_b + 10 * noise[7:11], 10.0, 'b')]),
    ('no total information at all', 'L2', None,
     [(contrast, contrast @ np.array([0., .3, .7]), 0.05, 'a')]),
    ('zero-budget round: infinite noise scale', 'L2', None,
     [(I3, true_a + noise[:3], np.inf, 'a')]),
    ('contrasts + zero-budget identity measurement', 'L2', None,
     [(contrast, contrast @ np.array([0., .3, .7]), 0.05, 'a'), (I4, true_b, np.inf, 'b')]),
    ('noise scale whose square overflows float64', 'L2', None,
     [(contrast, contrast @ np.array([0., .3, .7]), 0.05, ('a',)), (I3, true_a, np.float64(1e160), 'a'),
      (I4, true_b, np.float64(3e170), ('b',))]),
]

problems, lines = [], []
for name, metric, given, meas in CASES:
    before = pub_df.copy()
    est = PublicInference(public, metric=metric).estimate(meas, total=given)
    w = np.asarray(est.weights)
    want = given if given is not None else reference_total(meas)
    bad = []
    if w.shape != (N,):
        bad.append('expected %d weights, got shape %s' % (N, w.shape))
    if not np.all(np.isfinite(w)):
        bad.append('%d of %d weights are not finite' % ((~np.isfinite(w)).sum(), w.size))
    elif (w < 0).any():
        bad.append('negative weights')
    if not np.isclose(w.sum(), want, rtol=1e-9, atol=0):
        bad.append('weights sum to %r, total should be %r' % (float(w.sum()), want))
    if not (est.df.values == before.values).all() or not pub_df.equals(before):
        bad.append('public records changed')
    if not bad:
        uniform = np.ones(N) * want / N
        lw, lu = loss_of(w, meas, metric), loss_of(uniform, meas, metric)
        if not lw <= lu * (1 + 1e-9) + 1e-12:
            bad.append('fit got worse: loss %r > uniform loss %r' % (lw, lu))
        lines.append('%-48s total=%.10g loss=%.10g uniform=%.10g sha=%s' % (
            name, w.sum(), lw, lu, hashlib.sha256(w.tobytes()).hexdigest()[:16]))
    for b in bad:
        problems.append('%s: %s' % (name, b))

if problems:
    print('FAIL')
    for p in problems:
        print('  ' + p)
    sys.exit(1)
print('PASS')
print('\n'.join(lines))
print('digest', hashlib.sha256('\n'.join(lines).encode()).hexdigest())

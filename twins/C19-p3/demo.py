"""Pair 1 demo -- PublicInference.estimate must reweight THE public records.

Clause exercised: the result holds one finite nonnegative weight per public
record, summing to the total, "over the unchanged public records" (same rows,
same attributes, same domain as the public dataset that was passed in), and it
fits no worse than the uniformly weighted public data with the same total.

Exit 0 + "PASS" on the unmodified code and with keep/patch.diff applied
(byte-identical stdout); exit 1 + "FAIL" with break/patch.diff applied.
"""
import os, sys, hashlib, warnings
warnings.filterwarnings('ignore')
ROOT = os.path.dirname(os.path.dirname(os.path.dirname(os.path.abspath(__file__))))
sys.path.insert(0, os.path.join(ROOT, 'src'))

import numpy as np
import pandas as pd
from scipy import sparse
import mbi
from mbi import Dataset, Domain, PublicInference

assert os.path.abspath(mbi.__file__).startswith(os.path.join(ROOT, 'src')), mbi.__file__

ATTRS = ['a', 'b', 'c', 'd']
SHAPE = [3, 4, 2, 5]


def make_data(seed, n, skew):
    rng = np.random.RandomState(seed)
    cols = {}
    for a, k in zip(ATTRS, SHAPE):
        p = np.arange(1, k + 1, dtype=float) ** skew
        cols[a] = rng.choice(k, size=n, p=p / p.sum())
    return pd.DataFrame(cols)


def marginal(df, weights, cl, domain):
    """independent weighted contingency table (C-order flattened)"""
    cl = [cl] if isinstance(cl, str) else list(cl)
    shape = [domain[a] for a in cl]
    flat = np.ravel_multi_index(tuple(df[a].values for a in cl), shape)
    return np.bincount(flat, weights=weights, minlength=int(np.prod(shape)))


def true_loss(df, weights, measurements, domain, metric):
    loss = 0.0
    for Q, y, sigma, cl in measurements:
        r = (Q @ marginal(df, weights, cl, domain) - y) / sigma
        loss += np.abs(r).sum() if metric == 'L1' else 0.5 * float(r @ r)
    return loss


def measure(private, domain, cliques, sigmas, seed):
    rng = np.random.RandomState(seed)
    ans = []
    for cl, sigma in zip(cliques, sigmas):
        x = marginal(private, np.ones(len(private)), cl, domain)
        Q = sparse.eye(x.size, format='csr')
        ans.append((Q, x + rng.normal(0, sigma, x.size), sigma, cl))
    return ans


CASES = [
    # name, measured cliques, sigmas, total, metric
    ('all-attributes-in-order', [('a', 'b'), ('c', 'd')], [3.0, 3.0], None, 'L2'),
    ('all-attributes-chain',    [('a', 'b'), ('b', 'c'), ('c', 'd')], [2.0, 4.0, 2.0], 700.0, 'L2'),
    ('two-of-four-attributes',  [('a', 'b')], [3.0], None, 'L2'),
    ('single-attribute-string', ['c'], [5.0], 650.0, 'L2'),
    ('skips-first-attribute',   [('b', 'c'), ('c', 'd')], [3.0, 3.0], None, 'L1'),
    ('last-attribute-only',     [('d',)], [1.0], None, 'L2'),
]


def main():
    domain = Domain(ATTRS, SHAPE)
    private = make_data(0, 800, 1.5)
    pubdf = make_data(1, 300, 0.3)
    problems, digest = [], hashlib.sha256()
    for i, (name, cliques, sigmas, total, metric) in enumerate(CASES):
        public = Dataset(pubdf.copy(), domain)
        before = public.df.copy()
        meas = measure(private, domain, cliques, sigmas, 100 + i)
        engine = PublicInference(public, metric=metric)
        est = engine.estimate(meas, total=total)
        w = np.asarray(est.weights, dtype=float)
        T = float(w.sum())

        bad = []
        if w.shape != (len(before),):
            bad.append('weights have shape %s for %d public records' % (w.shape, len(before)))
        if not (np.all(np.isfinite(w)) and np.all(w >= 0)):
            bad.append('weights are not finite and nonnegative')
        if total is None:
            # identity queries: sum(y) estimates the total with variance sigma^2 * n
            e = np.array([m[1].sum() for m in meas])
            v = np.array([m[2] ** 2 * m[1].size for m in meas])
            want = max(1.0, float(np.sum(e / v) / np.sum(1.0 / v)))
        else:
            want = float(total)
        if abs(T - want) > 1e-6 * want:
            bad.append('weights sum to %r, expected total %r' % (T, want))
        if list(est.df.columns) != ATTRS or est.domain != domain:
            bad.append('returned dataset is over attributes %s / %s, public data is over %s'
                       % (list(est.df.columns), est.domain, ATTRS))
        elif est.df.shape != before.shape or not np.array_equal(est.df.values, before.values):
            bad.append('returned records differ from the public records')
        if not public.df.equals(before):
            bad.append('public dataset was modified in place')
        if not bad:
            # the reweighted data must be usable like the public data: any marginal
            for cl in [('a', 'd'), ('b', 'c', 'd')]:
                got = est.project(cl).datavector()
                ref = marginal(before, w, cl, domain)
                if not np.allclose(got, ref, rtol=1e-9, atol=1e-9):
                    bad.append('marginal %s of the result is not the weighted table' % (cl,))
            uni = np.ones(len(before)) * T / len(before)
            l_fit = true_loss(before, w, meas, domain, metric)
            l_uni = true_loss(before, uni, meas, domain, metric)
            if l_fit > l_uni * (1 + 1e-9) + 1e-9:
                bad.append('fits worse than uniform: %.6g > %.6g' % (l_fit, l_uni))
            line = '%-26s records=%d attrs=%s total=%.6f loss=%.6f uniform=%.6f' % (
                name, len(w), ','.join(est.df.columns), T, l_fit, l_uni)
        else:
            line = '%-26s INVALID' % name
        print(line)
        digest.update(line.encode())
        digest.update(np.round(w, 7).tobytes())
        for b in bad:
            problems.append('%s: %s' % (name, b))

    print('digest', digest.hexdigest())
    if problems:
        print('FAIL')
        for p in problems:
            print('  -', p)
        print('PublicInference.estimate no longer returns weights over the unchanged public records.')
        return 1
    print('PASS')
    return 0


if __name__ == '__main__':
    sys.exit(main())

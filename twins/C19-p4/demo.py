"""Pair 2 demo -- the fit must account for EVERY measurement, also when several
measurements are taken over the same clique (re-measured marginals, as adaptive
mechanisms such as AIM / MWEM produce them).

Clause exercised: "the reweighted data never fits the measurements worse than
the uniformly weighted public data with the same total", for measurement sets
in which one clique occurs more than once.  The loss is recomputed here,
independently of the library, from the returned weighted dataset.

Exit 0 + "PASS" on the unmodified code and with keep/patch.diff applied
(byte-identical stdout); exit 1 + "FAIL" with break/patch.diff applied.
"""
import os, sys, hashlib, warnings
warnings.filterwarnings('ignore')
ROOT = os.path.dirname(os.path.dirname(os.path.dirname(os.path.abspath(__file__))))
sys.path.insert(0, os.path.join(ROOT, 'src'))

import numpy as np
import pandas as pd
from scipy import sparse
import mbi
from mbi import Dataset, Domain, PublicInference

assert os.path.abspath(mbi.__file__).startswith(os.path.join(ROOT, 'src')), mbi.__file__

ATTRS = ['a', 'b', 'c']
SHAPE = [4, 3, 2]


def make_data(seed, n, skew):
    rng = np.random.RandomState(seed)
    cols = {}
    for a, k in zip(ATTRS, SHAPE):
        p = np.arange(1, k + 1, dtype=float) ** skew
        cols[a] = rng.choice(k, size=n, p=p / p.sum())
    return pd.DataFrame(cols)


def marginal(df, weights, cl, domain):
    cl = [cl] if isinstance(cl, str) else list(cl)
    shape = [domain[a] for a in cl]
    flat = np.ravel_multi_index(tuple(df[a].values for a in cl), shape)
    return np.bincount(flat, weights=weights, minlength=int(np.prod(shape)))


def true_loss(df, weights, measurements, domain, metric):
    loss = 0.0
    for Q, y, sigma, cl in measurements:
        r = (Q @ marginal(df, weights, cl, domain) - y) / sigma
        loss += np.abs(r).sum() if metric == 'L1' else 0.5 * float(r @ r)
    return loss


def build_cases(domain, private, pubdf):
    N = float(len(private))
    ones = np.ones(len(private))
    rng = np.random.RandomState(7)

    def noisy(cl, sigma):
        x = marginal(private, ones, cl, domain)
        return (sparse.eye(x.size, format='csr'), x + rng.normal(0, sigma, x.size), sigma, cl)

    def public_shape(cl, sigma):
        # a precise measurement that happens to agree with the public distribution
        x = marginal(pubdf, np.ones(len(pubdf)) * N / len(pubdf), cl, domain)
        return (sparse.eye(x.size, format='csr'), x, sigma, cl)

    def skewed(cl, sigma):
        # a very noisy measurement that points somewhere else entirely
        n = int(np.prod([domain[a] for a in ([cl] if isinstance(cl, str) else cl)]))
        y = np.zeros(n); y[0] = N
        return (sparse.eye(n, format='csr'), y, sigma, cl)

    ab, bc, a = ('a', 'b'), ('b', 'c'), ('a',)
    return [
        # name, measurements, total, metric
        ('distinct-cliques',        [noisy(ab, 3.0), noisy(bc, 3.0)], None, 'L2'),
        ('distinct-cliques-L1',     [noisy(a, 2.0), noisy(bc, 4.0)], N, 'L1'),
        ('same-clique-same-answer', [noisy(ab, 3.0)] * 2 + [noisy(bc, 5.0)], None, 'L2'),
        ('remeasured-then-refined', [noisy(ab, 20.0), noisy(bc, 4.0), noisy(ab, 2.0)], None, 'L2'),
        ('precise-then-vague',      [public_shape(ab, 0.5), skewed(ab, 40.0)], N, 'L2'),
        ('precise-then-vague-L1',   [public_shape(a, 0.5), noisy(bc, 5.0), skewed(a, 40.0)], N, 'L1'),
        ('three-rounds-one-clique', [public_shape(bc, 1.0), noisy(bc, 6.0), skewed(bc, 60.0)], N, 'L2'),
    ]


def main():
    domain = Domain(ATTRS, SHAPE)
    private = make_data(0, 600, 1.2)
    pubdf = make_data(1, 240, 0.2)
    problems, digest = [], hashlib.sha256()
    for name, meas, total, metric in build_cases(domain, private, pubdf):
        public = Dataset(pubdf.copy(), domain)
        est = PublicInference(public, metric=metric).estimate(meas, total=total)
        w = np.asarray(est.weights, dtype=float)
        T = float(w.sum())
        bad = []
        if w.shape != (len(pubdf),) or not np.all(np.isfinite(w)) or not np.all(w >= 0):
            bad.append('weights are not one finite nonnegative number per public record')
        if total is not None and abs(T - total) > 1e-6 * total:
            bad.append('weights sum to %r, total given was %r' % (T, total))
        if not np.array_equal(est.df.values, pubdf.values):
            bad.append('public records changed')
        uni = np.ones(len(pubdf)) * T / len(pubdf)
        l_fit = true_loss(pubdf, w, meas, domain, metric)
        l_uni = true_loss(pubdf, uni, meas, domain, metric)
        if not l_fit <= l_uni * (1 + 1e-9) + 1e-9:
            bad.append('reweighted public data fits the %d measurements WORSE than uniformly '
                       'weighted public data with the same total: loss %.6g > %.6g'
                       % (len(meas), l_fit, l_uni))
        cliques = [m[3] for m in meas]
        line = '%-24s metric=%s cliques=%d/%d total=%.6f loss=%.6f uniform=%.6f' % (
            name, metric, len(set(cliques)), len(cliques), T, l_fit, l_uni)
        print(line)
        digest.update(line.encode())
        digest.update(np.round(w, 7).tobytes())
        for b in bad:
            problems.append('%s: %s' % (name, b))

    print('digest', digest.hexdigest())
    if problems:
        print('FAIL')
        for p in problems:
            print('  -', p)
        print('Some measurement over a repeated clique is not (or wrongly) counted in the loss that '
              'the line search minimises.')
        return 1
    print('PASS')
    return 0


if __name__ == '__main__':
    sys.exit(main())

"""C19 / pair 1 -- estimate_total(): "solve lsmr once per ..." memoisation.

Clause exercised: the returned weights sum to the *estimated* total (total=None),
where the estimate is the minimum-variance unbiased linear estimate of the total
that the measurement set supports.  The demo recomputes that estimate with an
independent dense oracle (numpy lstsq, no mbi code) and compares it with the sum
of the weights PublicInference.estimate returns.  It also re-checks the other
clauses of the property on every case (one finite nonnegative weight per record,
records unchanged, fit never worse than uniform weights with the same total).

exit 0 + "PASS" + digest : property holds on every case
exit 1 + "FAIL" ...      : some case violates it
"""
import os
import sys
import hashlib
import warnings

ROOT = os.path.dirname(os.path.dirname(os.path.dirname(os.path.abspath(__file__))))
sys.path.insert(0, os.path.join(ROOT, 'src'))
warnings.filterwarnings('ignore')

import numpy as np
import pandas as pd
from scipy import sparse

import mbi
assert os.path.abspath(mbi.__file__).startswith(os.path.join(ROOT, 'src')), mbi.__file__
from mbi import Dataset, Domain, PublicInference


# ---------------------------------------------------------------- fixtures
def skewed(rng, n, size, skew):
    p = np.exp(-skew * np.arange(size))
    return rng.choice(size, size=n, p=p / p.sum())


def make_data(seed, npriv=1200, npub=90):
    rng = np.random.RandomState(seed)
    dom = Domain(['a', 'b', 'c'], [5, 4, 3])
    priv = pd.DataFrame({a: skewed(rng, npriv, s, 0.4) for a, s in zip(dom.attrs, dom.shape)})
    pub = pd.DataFrame({a: skewed(rng, npub, s, 0.0) for a, s in zip(dom.attrs, dom.shape)})
    return rng, Dataset(priv, dom), Dataset(pub, dom)


def measure(rng, priv, cl, Q, sigma):
    x = priv.project(cl).datavector()
    y = Q @ x + rng.normal(0, sigma, Q.shape[0])
    return (Q, y, sigma, cl)


def prefix(n):
    return sparse.csr_matrix(np.tril(np.ones((n, n))))


def cells(n, which):
    rows = np.zeros((len(which), n))
    rows[np.arange(len(which)), which] = 1.0
    return sparse.csr_matrix(rows)


# ---------------------------------------------------------------- oracles (no mbi code)
def dense(Q):
    return Q.toarray() if sparse.issparse(Q) else np.asarray(Q, dtype=float)


def oracle_total(measurements):
    """inverse-variance combination of the per-measurement unbiased total estimates"""
    num = den = 0.0
    for Q, y, sigma, _ in measurements:
        A = dense(Q)
        ones = np.ones(A.shape[1])
        v = np.linalg.lstsq(A.T, ones, rcond=None)[0]      # min-norm solution of A^T v = 1
        if not np.allclose(A.T @ v, ones):
            continue                                       # total not in the row space
        var = sigma ** 2 * (v @ v)
        num += (v @ np.asarray(y)) / var
        den += 1.0 / var
    return 1.0 if den == 0 else max(1.0, num / den)


def marginal(df, domain, weights, cl):
    shape = tuple(domain[a] for a in cl)
    out = np.zeros(shape)
    np.add.at(out, tuple(df[list(cl)].values.T), weights)
    return out.flatten()


def l2_loss(df, domain, weights, measurements):
    tot = 0.0
    for Q, y, sigma, cl in measurements:
        r = (dense(Q) @ marginal(df, domain, weights, cl) - np.asarray(y)) / sigma
        tot += 0.5 * (r @ r)
    return tot


# ---------------------------------------------------------------- cases
def cases():
    # 1. distinct marginals, one identity workload each, heterogeneous noise
    rng, priv, pub = make_data(11)
    yield 'distinct-cliques', pub, [
        measure(rng, priv, ('a',), sparse.eye(5), 6.0),
        measure(rng, priv, ('b', 'c'), sparse.eye(12), 9.0),
        measure(rng, priv, ('a', 'b'), sparse.eye(20), 12.0)], None

    # 2. the same marginal re-measured with the very same workload object
    rng, priv, pub = make_data(12)
    I5 = sparse.eye(5)
    yield 'remeasured-same-Q', pub, [
        measure(rng, priv, ('a',), I5, 8.0),
        measure(rng, priv, ('a',), I5, 4.0),
        measure(rng, priv, ('b',), sparse.eye(4), 5.0)], None

    # 3. the same marginal, two equal-valued but distinct workload objects
    rng, priv, pub = make_data(13)
    yield 'remeasured-equal-Q', pub, [
        measure(rng, priv, ('a', 'b'), sparse.eye(20), 10.0),
        measure(rng, priv, ('a', 'b'), sparse.eye(20), 7.0)], None

    # 4. identity, then the prefix-sum (range query) workload, on the same marginal
    rng, priv, pub = make_data(14)
    yield 'identity+prefix', pub, [
        measure(rng, priv, ('a',), sparse.eye(5), 8.0),
        measure(rng, priv, ('a',), prefix(5), 3.0),
        measure(rng, priv, ('b',), sparse.eye(4), 20.0)], None

    # 5. two single-cell counts (cannot see the total), then the identity, same marginal
    rng, priv, pub = make_data(15)
    yield 'cells+identity', pub, [
        measure(rng, priv, ('b',), cells(4, [0, 2]), 2.0),
        measure(rng, priv, ('b',), sparse.eye(4), 5.0),
        measure(rng, priv, ('c',), sparse.eye(3), 40.0)], None

    # 6. identity and a re-scaled identity (weighted workload) on the same marginal
    rng, priv, pub = make_data(16)
    yield 'identity+scaled', pub, [
        measure(rng, priv, ('c', 'a'), 2.0 * sparse.eye(15), 6.0),
        measure(rng, priv, ('c', 'a'), sparse.eye(15), 6.0)], None

    # 7. as 4 but the caller supplies the total: the estimate must not matter
    rng, priv, pub = make_data(17)
    yield 'identity+prefix-given-total', pub, [
        measure(rng, priv, ('a',), sparse.eye(5), 8.0),
        measure(rng, priv, ('a',), prefix(5), 3.0)], 1000


def main():
    failures = []
    digest = hashlib.sha256()
    for name, pub, M, given in cases():
        df_before = pub.df.copy()
        try:
            engine = PublicInference(pub)
            est = engine.estimate(M, total=given)
        except Exception as e:                                   # a crash is a violation too
            failures.append('%s: estimate raised %s: %s' % (name, type(e).__name__, e))
            continue
        w = np.asarray(est.weights)
        want = float(given) if given is not None else oracle_total(M)
        problems = []
        if w.shape != (pub.records,):
            problems.append('weights shape %s for %d public records' % (w.shape, pub.records))
        elif not np.all(np.isfinite(w)) or w.min() < 0:
            problems.append('weights not finite / nonnegative')
        else:
            if not np.isclose(w.sum(), want, rtol=1e-6, atol=1e-9):
                problems.append('weights sum to %.6f but the %s total is %.6f'
                                % (w.sum(), 'given' if given is not None else 'minimum-variance estimated', want))
            if not (est.df.equals(df_before) and pub.df.equals(df_before)):
                problems.append('public records changed')
            uniform = np.full(pub.records, w.sum() / pub.records)
            lu = l2_loss(df_before, pub.domain, uniform, M)
            lw = l2_loss(df_before, pub.domain, w, M)
            if lw > lu * (1 + 1e-9) + 1e-9:
                problems.append('fit got worse: loss %.6g > uniform loss %.6g' % (lw, lu))
        for p in problems:
            failures.append('%s: %s' % (name, p))
        h = hashlib.sha256(np.ascontiguousarray(w, dtype=float).tobytes()).hexdigest()[:16]
        digest.update(h.encode())
        print('%-28s total=%-22r weights#%s' % (name, float(w.sum()), h))

    if failures:
        print('FAIL')
        for f in failures:
            print('  - ' + f)
        return 1
    print('PASS digest=%s' % digest.hexdigest()[:32])
    return 0


if __name__ == '__main__':
    sys.exit(main())

"""C19 / pair 2 -- entropic_mirror_descent(): trial point written into a reused buffer.

Clause exercised: the reweighted public data never fits the measurements worse
than the uniformly weighted public data with the same total.  The loss is
recomputed from the returned weights with an independent oracle (np.add.at
contingency tables, dense query matrices -- no mbi code), over a grid of noise
scales and private-data skews.  The other clauses (one finite nonnegative weight
per record, sum equals the given total, records unchanged) are re-checked too.

exit 0 + "PASS" + digest : property holds on every case
exit 1 + "FAIL" ...      : some case violates it
"""
import os
import sys
import hashlib
import warnings

ROOT = os.path.dirname(os.path.dirname(os.path.dirname(os.path.abspath(__file__))))
sys.path.insert(0, os.path.join(ROOT, 'src'))
warnings.filterwarnings('ignore')

import numpy as np
import pandas as pd
from scipy import sparse

import mbi
assert os.path.abspath(mbi.__file__).startswith(os.path.join(ROOT, 'src')), mbi.__file__
from mbi import Dataset, Domain, PublicInference


# ---------------------------------------------------------------- fixtures
def draw(rng, dom, n, skew):
    cols = {}
    for a, s in zip(dom.attrs, dom.shape):
        p = np.exp(-skew * np.arange(s))
        cols[a] = rng.choice(s, size=n, p=p / p.sum())
    return Dataset(pd.DataFrame(cols), dom)


def make(seed, sigma, skew, cliques, npriv=1000, npub=80):
    """private data skewed towards small codes, public data uniform: the larger the
    skew and the smaller the noise, the harder the public data has to be bent"""
    rng = np.random.RandomState(seed)
    dom = Domain(['a', 'b', 'c'], [4, 5, 3])
    priv, pub = draw(rng, dom, npriv, skew), draw(rng, dom, npub, 0.0)
    M = []
    for cl in cliques:
        x = priv.project(cl).datavector()
        Q = sparse.eye(x.size)
        M.append((Q, Q @ x + rng.normal(0, sigma, x.size), sigma, cl))
    return pub, M


# ---------------------------------------------------------------- oracle (no mbi code)
def marginal(df, domain, weights, cl):
    out = np.zeros(tuple(domain[a] for a in cl))
    np.add.at(out, tuple(df[list(cl)].values.T), weights)
    return out.flatten()


def loss_of(df, domain, weights, measurements, metric):
    tot = 0.0
    for Q, y, sigma, cl in measurements:
        r = (Q.toarray() @ marginal(df, domain, weights, cl) - y) / sigma
        tot += np.abs(r).sum() if metric == 'L1' else 0.5 * (r @ r)
    return tot


def check(name, pub, df_before, est, total, M, metric, failures):
    w = np.asarray(est.weights)
    if w.shape != (pub.records,):
        failures.append('%s: weights shape %s for %d records' % (name, w.shape, pub.records))
        return 'shape', w
    if not np.all(np.isfinite(w)) or w.min() < 0:
        failures.append('%s: weights not finite / nonnegative' % name)
        return 'nonfinite', w
    if not np.isclose(w.sum(), total, rtol=1e-6):
        failures.append('%s: weights sum to %.6f, total is %.6f' % (name, w.sum(), total))
    if not (est.df.equals(df_before) and pub.df.equals(df_before)):
        failures.append('%s: public records changed' % name)
    uniform = np.full(pub.records, w.sum() / pub.records)
    lu = loss_of(df_before, pub.domain, uniform, M, metric)
    lw = loss_of(df_before, pub.domain, w, M, metric)
    if lw > lu * (1 + 1e-9) + 1e-9:
        failures.append('%s: reweighted public data fits WORSE than uniform weights: '
                        '%s loss %.6g > %.6g (x%.3f)' % (name, metric, lw, lu, lw / lu))
    return '%.6f' % (lw / lu), w


C3 = [('a', 'b'), ('b', 'c'), ('a',)]

GRID = [
    # name                     seed sigma  skew cliques           total  metric
    ('noisy-flat',               0, 100.0, 0.0, C3,               1000., 'L2'),
    ('noisy-skewed',             1, 100.0, 1.5, C3,               1000., 'L2'),
    ('moderate-flat',            2,  10.0, 0.0, C3,               1000., 'L2'),
    ('moderate-skewed',          0,  10.0, 1.5, C3,               1000., 'L2'),
    ('moderate-L1',              1,  10.0, 0.5, C3,               1000., 'L1'),
    ('accurate-flat',            0,   1.0, 0.0, C3,               1000., 'L2'),
    ('accurate-skewed',          0,   1.0, 1.5, C3,               1000., 'L2'),
    ('accurate-skewed-2way',     2,   1.0, 1.5, [('a', 'b')],      800., 'L2'),
    ('precise-mild-skew',        1,   0.1, 0.5, C3,               1000., 'L2'),
    ('precise-skewed',           1,   0.1, 1.5, C3,               1200., 'L2'),
    ('near-exact-skewed',        2,  0.01, 0.5, C3,               1000., 'L2'),
    ('near-exact-1way',          0,  0.01, 1.5, [('a',), ('c',)], 1000., 'L2'),
]


def main():
    failures = []
    digest = hashlib.sha256()

    def report(name, ratio, w):
        h = hashlib.sha256(np.ascontiguousarray(w, dtype=float).tobytes()).hexdigest()[:16]
        digest.update(h.encode())
        print('%-26s loss/uniform=%-12s weights#%s' % (name, ratio, h))

    for name, seed, sigma, skew, cliques, total, metric in GRID:
        pub, M = make(seed, sigma, skew, cliques)
        df_before = pub.df.copy()
        try:
            est = PublicInference(pub, metric=metric).estimate(M, total=total)
        except Exception as e:
            failures.append('%s: estimate raised %s: %s' % (name, type(e).__name__, e))
            continue
        report(name, *check(name, pub, df_before, est, total, M, metric, failures))

    # one engine used twice: the second call warm-starts from the first call's weights
    pub, M1 = make(5, 10.0, 0.5, [('a',), ('b',)])
    _, M2 = make(5, 10.0, 0.5, C3)
    df_before = pub.df.copy()
    engine = PublicInference(pub)
    for name, M, total in [('reused-engine-call-1', M1, 900.), ('reused-engine-call-2', M1 + M2, 1100.)]:
        try:
            est = engine.estimate(M, total=total)
        except Exception as e:
            failures.append('%s: estimate raised %s: %s' % (name, type(e).__name__, e))
            continue
        report(name, *check(name, pub, df_before, est, total, M, 'L2', failures))

    if failures:
        print('FAIL')
        for f in failures:
            print('  - ' + f)
        return 1
    print('PASS digest=%s' % digest.hexdigest()[:32])
    return 0


if __name__ == '__main__':
    sys.exit(main())

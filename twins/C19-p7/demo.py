"""C19 / pair 1 -- PublicInference.estimate: results of successive calls on one engine.

Property clauses exercised: every dataset returned by estimate() carries one finite
non-negative weight per public record, summing to the total given (or estimated) FOR THAT
CALL, and (for the first call on a fresh engine, which starts from uniform weights) fits
its measurements no worse than the uniformly weighted public data with the same total.
These facts must remain true of a returned dataset after the engine has been used again.

Exit 0 + "PASS" + digest on correct code, exit 1 + "FAIL" otherwise.
"""
import os, sys, hashlib, warnings
ROOT = os.path.dirname(os.path.dirname(os.path.dirname(os.path.abspath(__file__))))
sys.path.insert(0, os.path.join(ROOT, 'src'))
sys.path.insert(1, ROOT)
warnings.filterwarnings('ignore')
import numpy as np
import pandas as pd
import mbi
from mbi import Dataset, Domain, PublicInference
from mbi.public_inference import estimate_total

assert os.path.abspath(mbi.__file__).startswith(ROOT), mbi.__file__

failures = []
lines = []

def fail(msg):
    failures.append(msg)

def table(df, shape_of, cl, w):
    """weighted contingency table over clique cl, computed with numpy only"""
    shape = tuple(shape_of[a] for a in cl)
    t = np.zeros(shape)
    np.add.at(t, tuple(df[a].values for a in cl), w)
    return t.flatten()

def loss(df, shape_of, measurements, w):
    tot = 0.0
    for Q, y, sigma, cl in measurements:
        r = (Q @ table(df, shape_of, cl, w) - y) / sigma
        tot += 0.5 * float(r @ r)
    return tot

def make_measurements(prng, priv, shape_of, cliques, sigmas):
    ms = []
    for cl, s in zip(cliques, sigmas):
        x = table(priv, shape_of, cl, np.ones(len(priv)))
        ms.append((np.eye(x.size), x + prng.normal(0, s, x.size), float(s), cl))
    return ms

def check(tag, res, pub, shape_of, measurements, total, snapshot=None, fresh=False):
    """validity of one returned dataset w.r.t. the call that produced it"""
    w = res.weights
    n = len(pub)
    ok = True
    if w.shape != (n,):
        fail('%s: %s weights for %d public records' % (tag, w.shape, n)); ok = False
    if not (np.all(np.isfinite(w)) and np.all(w >= 0)):
        fail('%s: weights not finite / non-negative' % tag); ok = False
    if not np.isclose(w.sum(), total, rtol=1e-9, atol=0):
        fail('%s: weights sum to %.6f, the call was made with total %.6f' % (tag, w.sum(), total)); ok = False
    if not all(np.array_equal(res.df[a].values, pub[a].values) for a in shape_of):
        fail('%s: public records changed' % tag); ok = False
    if snapshot is not None and not np.array_equal(w, snapshot):
        fail('%s: weights of an already returned dataset changed (max abs diff %.3g)'
             % (tag, np.abs(w - snapshot).max())); ok = False
    if fresh and ok:
        l_fit = loss(pub, shape_of, measurements, w)
        l_uni = loss(pub, shape_of, measurements, np.full(n, total / n))
        if not l_fit <= l_uni * (1 + 1e-12):
            fail('%s: fit %.6f worse than uniform %.6f' % (tag, l_fit, l_uni)); ok = False
        lines.append('%s loss fit=%.10f uniform=%.10f' % (tag, l_fit, l_uni))
    lines.append('%s sum=%.10f sha=%s' % (tag, w.sum(), hashlib.sha256(np.ascontiguousarray(w).tobytes()).hexdigest()[:16]))
    return ok

def scenario(seed, shape, n_pub, n_priv, calls):
    """calls: list of (cliques, sigmas, total or None); all made on ONE engine, in order"""
    prng = np.random.RandomState(seed)
    attrs = list('abcd')[:len(shape)]
    shape_of = dict(zip(attrs, shape))
    dom = Domain(attrs, shape)
    # private data concentrated on part of the domain, so that many public records
    # fall outside the private support
    priv = pd.DataFrame({a: prng.binomial(shape_of[a] - 1, 0.25, n_priv) for a in attrs})
    pub = pd.DataFrame({a: prng.randint(0, shape_of[a], n_pub) for a in attrs})
    engine = PublicInference(Dataset(pub, dom))
    history = []
    for k, (cliques, sigmas, total) in enumerate(calls):
        ms = make_measurements(prng, priv, shape_of, cliques, sigmas)
        used_total = estimate_total(ms) if total is None else total
        res = engine.estimate(ms, total=total)
        tag = 'seed%d call%d' % (seed, k)
        check(tag, res, pub, shape_of, ms, used_total, fresh=(k == 0))
        history.append((tag, res, ms, used_total, res.weights.copy()))
        # every dataset handed out earlier must still be what it was
        for tag0, res0, ms0, total0, snap0 in history[:-1]:
            check(tag0 + ' (re-examined after call%d)' % k, res0, pub, shape_of, ms0, total0, snapshot=snap0)
    # the engine's own state is the last estimate
    if not np.array_equal(engine.weights, history[-1][4]):
        fail('seed%d: engine.weights is not the last estimate' % seed)

# single call on a fresh engine (no history: the breaking change is invisible here)
scenario(0, (3, 4, 2), 60, 500, [([('a',), ('b', 'c')], [2.0, 3.0], 500)])
scenario(1, (2, 5), 40, 300, [([('a', 'b')], [1.5], None)])
# an engine used repeatedly: different measurement sets and different totals
scenario(2, (3, 4, 2), 80, 400, [([('a',), ('b',), ('c',)], [1.0, 1.0, 1.0], 400),
                                  ([('a', 'b'), ('b', 'c')], [2.0, 5.0], 150.5),
                                  ([('c',)], [1.0], None)])
scenario(3, (4, 3), 50, 1000, [([('a', 'b')], [4.0], None),
                                ([('a',), ('b',)], [0.5, 0.5], 37.5)])
# same total on both calls, only the measurements differ
scenario(4, (2, 3, 2), 30, 200, [([('a', 'c')], [1.0], 200),
                                  ([('b',), ('a', 'b')], [3.0, 1.0], 200)])

digest = hashlib.sha256('\n'.join(lines).encode()).hexdigest()
if failures:
    print('FAIL')
    for f in failures:
        print('  ' + f)
    sys.exit(1)
print('\n'.join(lines))
print('PASS', digest)

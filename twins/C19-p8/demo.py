"""C19 / pair 2 -- Dataset.__init__ / Dataset.project: column layout of the public frame.

Property clauses exercised: the dataset returned by PublicInference.estimate() is over the
unchanged public records, its weighted contingency tables (Dataset.project(cl).datavector(),
Dataset.datavector()) are the marginals of those weighted records, and it never fits the
measurements worse than the uniformly weighted public data with the same total -- for every
public dataset, in particular one whose DataFrame lists the attributes in another order than
the Domain does (domain read from a json file, frame read from a csv), with or without
extra columns.

All reference values are computed here with numpy only, addressing columns BY NAME.
Exit 0 + "PASS" + digest on correct code, exit 1 + "FAIL" otherwise.
"""
import os, sys, hashlib, warnings
ROOT = os.path.dirname(os.path.dirname(os.path.dirname(os.path.abspath(__file__))))
sys.path.insert(0, os.path.join(ROOT, 'src'))
sys.path.insert(1, ROOT)
warnings.filterwarnings('ignore')
import numpy as np
import pandas as pd
import mbi
from mbi import Dataset, Domain, PublicInference
from mbi.public_inference import estimate_total

assert os.path.abspath(mbi.__file__).startswith(ROOT), mbi.__file__

failures = []
lines = []

def fail(msg):
    failures.append(msg)

def table(df, shape_of, cl, w):
    shape = tuple(shape_of[a] for a in cl)
    t = np.zeros(shape)
    np.add.at(t, tuple(df[a].values for a in cl), w)
    return t.flatten()

def loss(df, shape_of, measurements, w):
    tot = 0.0
    for Q, y, sigma, cl in measurements:
        r = (Q @ table(df, shape_of, cl, w) - y) / sigma
        tot += 0.5 * float(r @ r)
    return tot

def run(tag, seed, attrs, shape, frame_cols, cliques, sigmas, total, p_priv, n_pub=60, n_priv=600):
    """attrs/shape: the Domain (in this order).  frame_cols: column order of the public
    DataFrame (may contain extra columns not in the domain).  p_priv: per attribute binomial
    parameter of the private data (skewed, so that many public records lie outside the
    private support)."""
    prng = np.random.RandomState(seed)
    shape_of = dict(zip(attrs, shape))
    dom = Domain(attrs, shape)
    priv = pd.DataFrame({a: prng.binomial(shape_of[a] - 1, p_priv[a], n_priv) for a in attrs})
    cols = {a: prng.randint(0, shape_of[a], n_pub) for a in attrs}
    for extra in frame_cols:
        if extra not in cols:
            cols[extra] = prng.randint(0, 7, n_pub)
    pub = pd.DataFrame({c: cols[c] for c in frame_cols})
    assert list(pub.columns) == list(frame_cols)
    ms = []
    for cl, s in zip(cliques, sigmas):
        x = table(priv, shape_of, cl, np.ones(n_priv))
        ms.append((np.eye(x.size), x + prng.normal(0, s, x.size), float(s), cl))
    used_total = estimate_total(ms) if total is None else total

    try:
        res = PublicInference(Dataset(pub, dom)).estimate(ms, total=total)
    except Exception as e:
        fail('%s: estimate() raised %s: %s' % (tag, type(e).__name__, e))
        return
    w = res.weights
    ok = True
    if w.shape != (n_pub,) or not np.all(np.isfinite(w)) or not np.all(w >= 0):
        fail('%s: invalid weights' % tag); ok = False
    elif not np.isclose(w.sum(), used_total, rtol=1e-9, atol=0):
        fail('%s: weights sum to %r, total is %r' % (tag, w.sum(), used_total)); ok = False
    # the returned dataset is over the unchanged public records, laid out as its domain says
    if res.domain.attrs != tuple(attrs) or list(res.df.columns) != list(res.domain.attrs):
        fail('%s: returned frame has columns %s but its domain is %s'
             % (tag, list(res.df.columns), list(res.domain.attrs)))
    if not all(np.array_equal(res.df[a].values, pub[a].values) for a in attrs):
        fail('%s: public records changed' % tag)
    if ok:
        # weighted contingency tables of the returned dataset are the marginals of the weighted records
        for cl in list(cliques) + [tuple(attrs)]:
            got = res.project(cl).datavector()
            ref = table(pub, shape_of, cl, w)
            if got.shape != ref.shape or not np.allclose(got, ref, rtol=1e-9, atol=1e-9):
                fail('%s: project(%s).datavector() is not the weighted table of the public records' % (tag, cl)); ok = False
        got = res.datavector()
        ref = table(pub, shape_of, tuple(attrs), w)
        if got.shape != ref.shape or not np.allclose(got, ref, rtol=1e-9, atol=1e-9):
            fail('%s: datavector() is not the weighted table of the public records (sums to %.4f, weights to %.4f)'
                 % (tag, got.sum(), w.sum())); ok = False
        # never a worse fit than the uniformly weighted public data with the same total
        l_fit = loss(pub, shape_of, ms, w)
        l_uni = loss(pub, shape_of, ms, np.full(n_pub, used_total / n_pub))
        if not l_fit <= l_uni * (1 + 1e-12):
            fail('%s: loss of the reweighted public data %.4f  >  loss of the uniformly weighted public data %.4f'
                 % (tag, l_fit, l_uni)); ok = False
        lines.append('%s loss fit=%.10f uniform=%.10f' % (tag, l_fit, l_uni))
    lines.append('%s sum=%.10f sha=%s' % (tag, w.sum(), hashlib.sha256(np.ascontiguousarray(w).tobytes()).hexdigest()[:16]))

lo_hi = {'a': 0.1, 'b': 0.9, 'c': 0.5, 'd': 0.3}

# frame already in domain order, no extra columns (the fast path of both variants)
run('A in-order', 0, ['a', 'b', 'c'], [3, 3, 2], ['a', 'b', 'c'],
    [('a',), ('b',), ('b', 'c')], [2.0, 2.0, 4.0], 600, lo_hi)
# extra columns, scrambled order (column selection needed in every variant)
run('B extra+scrambled', 1, ['a', 'b', 'c'], [3, 3, 2], ['x', 'c', 'b', 'id', 'a'],
    [('a',), ('a', 'b')], [2.0, 3.0], None, lo_hi)
# extra column, attributes in domain order
run('C extra', 2, ['a', 'b'], [2, 5], ['a', 'b', 'x'],
    [('a', 'b')], [1.0], 250.5, lo_hi)
# exactly the domain's columns, but the frame lists them in another order
run('D permuted', 3, ['a', 'b', 'c'], [3, 3, 2], ['b', 'a', 'c'],
    [('a', 'b'), ('c',)], [2.0, 2.0], 600, lo_hi)
run('E permuted binary', 4, ['a', 'b', 'c', 'd'], [2, 2, 2, 2], ['d', 'c', 'b', 'a'],
    [('a', 'd'), ('b', 'c')], [3.0, 1.0], None, lo_hi)
run('F permuted, clique in non-domain order', 5, ['a', 'b', 'c'], [4, 4, 4], ['c', 'a', 'b'],
    [('c', 'a', 'b')], [2.0], 600, lo_hi)
run('G permuted, one-way marginals', 7, ['a', 'b', 'c'], [3, 3, 2], ['b', 'a', 'c'],
    [('a',), ('b',), ('c',)], [2.0, 2.0, 2.0], 600, lo_hi)
# single attribute
run('H one attribute', 6, ['a'], [4], ['a'], [('a',), 'a'], [1.0, 5.0], None, lo_hi)

digest = hashlib.sha256('\n'.join(lines).encode()).hexdigest()
if failures:
    print('FAIL')
    for f in failures:
        print('  ' + f)
    sys.exit(1)
print('\n'.join(lines))
print('PASS', digest)

#!/usr/bin/env python
"""C19 / pair 1 -- metric dispatch at the top of PublicInference._marginal_loss.

Property clause under test: the data returned by PublicInference.estimate never fits
the measurements worse than the uniformly weighted public data with the same total --
where "fit" is the loss the engine was configured with (metric='L2', metric='L1' or a
user supplied callable, the "other loss functions" the module docstring advertises).

Prints PASS + a digest and exits 0 when every case satisfies the property,
prints FAIL + an explanation and exits 1 otherwise.
"""
import os, sys, hashlib, warnings
ROOT = os.path.dirname(os.path.dirname(os.path.dirname(os.path.abspath(__file__))))
sys.path.insert(0, ROOT)
sys.path.insert(0, os.path.join(ROOT, 'src'))
warnings.filterwarnings('ignore')

import numpy as np
import pandas as pd
from scipy import sparse
import mbi
from mbi import Dataset, Domain, Factor, CliqueVector
from mbi.public_inference import PublicInference

assert os.path.abspath(mbi.__file__).startswith(os.path.join(ROOT, 'src')), mbi.__file__


# ---------------------------------------------------------------- user supplied losses
def make_huber(measurements, delta=1.0):
    """ Huber loss on the noise-scaled residuals (robust to a few wild answers) """
    def huber(marginals):
        loss = 0.0
        grad = {cl: Factor.zeros(marginals[cl].domain) for cl in marginals}
        for Q, y, noise, cl in measurements:
            r = (Q @ marginals[cl].datavector() - y) / noise
            a = np.abs(r)
            loss += np.where(a <= delta, 0.5*r*r, delta*(a - 0.5*delta)).sum()
            grad[cl] += Factor(marginals[cl].domain, Q.T @ (np.clip(r, -delta, delta) / noise))
        return float(loss), CliqueVector(grad)
    return huber


def make_logcosh(measurements):
    """ smooth absolute error: sum log cosh(residual / noise) """
    def logcosh(marginals):
        loss = 0.0
        grad = {cl: Factor.zeros(marginals[cl].domain) for cl in marginals}
        for Q, y, noise, cl in measurements:
            r = (Q @ marginals[cl].datavector() - y) / noise
            loss += (np.logaddexp(r, -r) - np.log(2.0)).sum()
            grad[cl] += Factor(marginals[cl].domain, Q.T @ (np.tanh(r) / noise))
        return float(loss), CliqueVector(grad)
    return logcosh


def builtin(name, measurements):
    """ reference implementation of the two built-in metrics, written from the docs """
    def metric(marginals):
        loss = 0.0
        for Q, y, noise, cl in measurements:
            r = (Q @ marginals[cl].datavector() - y) / noise
            loss += np.abs(r).sum() if name == 'L1' else 0.5 * (r @ r)
        return float(loss), None
    return metric


# ---------------------------------------------------------------- inputs
def random_case(seed, total_given):
    rng = np.random.RandomState(seed)
    attrs = ['a', 'b', 'c']
    shape = [3, 4, 2]
    dom = Domain(attrs, shape)
    N = 35
    pub = pd.DataFrame({a: rng.randint(0, n, N) for a, n in zip(attrs, shape)})
    M = 240
    priv = Dataset(pd.DataFrame({a: np.minimum(rng.geometric(0.55, M) - 1, n - 1)
                                 for a, n in zip(attrs, shape)}), dom)
    meas = []
    for cl, s in [(('a', 'b'), 2.0), (('c',), 0.5), (('b', 'c'), 6.0)]:
        x = priv.project(cl).datavector()
        meas.append((sparse.eye(x.size), x + rng.normal(0, s, x.size), s, cl))
    return pub, dom, meas, (float(M) if total_given else None)


def outlier_case(seed, spike):
    """ the public data already matches the private marginals; one answer on ('a',)
        is wildly off (a heavy-tailed noise draw / a corrupted cell) """
    rng = np.random.RandomState(seed)
    dom = Domain(['a', 'b'], [5, 5])
    grid = np.array([(i, j) for i in range(5) for j in range(5)] * 2)
    pub = pd.DataFrame(grid[rng.permutation(len(grid))], columns=['a', 'b'])
    T = 500.0
    uni = Dataset(pub, dom, np.ones(len(pub)) * T / len(pub))
    ya = uni.project(('a',)).datavector() + rng.normal(0, 1.0, 5)
    yb = uni.project(('b',)).datavector() + rng.normal(0, 1.0, 5)
    yab = uni.project(('a', 'b')).datavector() + rng.normal(0, 1.0, 25)
    ya[2] += spike
    meas = [(sparse.eye(5), ya, 1.0, ('a',)),
            (sparse.eye(5), yb, 1.0, ('b',)),
            (sparse.eye(25), yab, 1.0, ('a', 'b'))]
    return pub, dom, meas, T


# ---------------------------------------------------------------- the check
failures = []
lines = []


def check(name, pub, dom, meas, total, metric, judge):
    public = Dataset(pub.copy(), dom)
    before = public.df.copy()
    engine = PublicInference(public, metric=metric)
    est = engine.estimate(meas, total)
    w = est.weights
    cliques = [M[-1] for M in meas]
    problems = []
    if w.shape != (len(pub),):
        problems.append('expected one weight per public record, got shape %s' % (w.shape,))
    if not np.all(np.isfinite(w)):
        problems.append('non-finite weights')
    elif (w < 0).any():
        problems.append('negative weights')
    if total is not None and not np.isclose(w.sum(), total, rtol=1e-8):
        problems.append('weights sum to %r, total was %r' % (w.sum(), total))
    if not (est.df.values == before.values).all() or not (public.df.values == before.values).all():
        problems.append('public records changed')
    T = w.sum()
    uniform = Dataset(before, dom, np.ones(len(pub)) * T / len(pub))
    fit = judge(CliqueVector.from_data(est, cliques))[0]
    base = judge(CliqueVector.from_data(uniform, cliques))[0]
    if not fit <= base * (1 + 1e-9) + 1e-9:
        problems.append('reweighted data fits WORSE than the uniformly weighted public data: '
                        'loss %.6f > %.6f (ratio %.3f)' % (fit, base, fit / base))
    for p in problems:
        failures.append('%s: %s' % (name, p))
    lines.append('%-28s total=%.6f fit=%.6f uniform=%.6f w=%s' % (
        name, T, fit, base, hashlib.sha256(np.round(w, 6).tobytes()).hexdigest()[:16]))
    return engine, est


for seed, given in [(0, True), (1, False), (2, True)]:
    pub, dom, meas, total = random_case(seed, given)
    check('L2/random%d' % seed, pub, dom, meas, total, 'L2', builtin('L2', meas))
    check('L1/random%d' % seed, pub, dom, meas, total, 'L1', builtin('L1', meas))
    h = make_huber(meas)
    check('huber/random%d' % seed, pub, dom, meas, total, h, h)

for seed, spike in [(3, 60.0), (4, 150.0)]:
    pub, dom, meas, total = outlier_case(seed, spike)
    check('L2/outlier%d' % seed, pub, dom, meas, total, 'L2', builtin('L2', meas))
    check('L1/outlier%d' % seed, pub, dom, meas, total, 'L1', builtin('L1', meas))
    h = make_huber(meas)
    check('huber/outlier%d' % seed, pub, dom, meas, total, h, h)
    g = make_logcosh(meas)
    engine, est = check('logcosh/outlier%d' % seed, pub, dom, meas, total, g, g)
    # an explicit per-call override on the same engine must be honoured as well
    mu = CliqueVector.from_data(est, [M[-1] for M in meas])
    lines.append('%-28s override(huber)=%.6f override(L1)=%.6f override(L2)=%.6f' % (
        'override/outlier%d' % seed, engine._marginal_loss(mu, metric=h)[0],
        engine._marginal_loss(mu, metric='L1')[0], engine._marginal_loss(mu, metric='L2')[0]))

print('\n'.join(lines))
digest = hashlib.sha256('\n'.join(lines).encode()).hexdigest()
if failures:
    print('FAIL')
    for f in failures:
        print('  ' + f)
    print('An engine configured with its own loss function must never return weights that fit '
          'worse, under that loss, than the uniform public data it started from.')
    sys.exit(1)
print('PASS', digest)
sys.exit(0)

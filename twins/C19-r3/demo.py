"""Equivalence demo for property C19 (public-data reweighting).

Prints a deterministic digest; output must be byte-identical on the
unmodified code and on the refactored code.
"""
import os
import sys
import hashlib
import warnings

ROOT = os.path.abspath(os.path.join(os.path.dirname(os.path.abspath(__file__)), '..', '..'))
sys.path.insert(0, os.path.join(ROOT, 'src'))
sys.path.insert(1, ROOT)
warnings.filterwarnings('ignore')

import numpy as np
import pandas as pd
from scipy import sparse

import mbi
from mbi import Dataset, Domain, Factor, CliqueVector
from mbi import public_inference as pi
from mbi.public_inference import PublicInference, entropic_mirror_descent, estimate_total

assert os.path.abspath(mbi.__file__).startswith(ROOT), mbi.__file__


def digest(a):
    a = np.ascontiguousarray(np.asarray(a, dtype=float))
    return hashlib.sha256(a.tobytes()).hexdigest()[:16]


def show(tag, a):
    a = np.asarray(a, dtype=float)
    flat = a.ravel()
    head = np.array2string(flat[:6], precision=10, floatmode='fixed', max_line_width=10000)
    print('%-34s shape=%s sum=%r min=%r max=%r sha=%s head=%s' % (
        tag, a.shape, float(flat.sum()) if flat.size else 0.0,
        float(flat.min()) if flat.size else 0.0,
        float(flat.max()) if flat.size else 0.0, digest(a), head))


def make_public(seed, n, attrs, shape, column_order=None, extra_col=False):
    prng = np.random.RandomState(seed)
    cols = {a: prng.randint(0, s, size=n) for a, s in zip(attrs, shape)}
    df = pd.DataFrame(cols)
    if extra_col:
        df['zzz'] = prng.randint(0, 3, size=n)
    if column_order is not None:
        df = df.loc[:, list(column_order) + (['zzz'] if extra_col else [])]
    return Dataset(df, Domain(attrs, shape))


def make_measurements(seed, private, cliques, noises, kind):
    prng = np.random.RandomState(seed)
    out = []
    for i, (cl, noise) in enumerate(zip(cliques, noises)):
        x = private.project(cl).datavector()
        n = x.size
        k = kind[i % len(kind)]
        if k == 'eye':
            Q = sparse.eye(n)
        elif k == 'dense':
            Q = np.eye(n)
        elif k == 'prefix':
            Q = np.tril(np.ones((n, n)))
        elif k == 'csr':
            Q = sparse.csr_matrix(np.vstack([np.eye(n), np.ones((1, n))]))
        elif k == 'partial':  # does not support the total query
            Q = sparse.csr_matrix(np.eye(n)[: max(1, n // 2)])
        else:
            raise ValueError(k)
        y = Q @ x + prng.laplace(scale=noise, size=Q.shape[0]) if k != 'exact' else Q @ x
        out.append((Q, y, noise, cl))
    return out


def recomputed_loss(engine, data, measurements, metric):
    cliques = [M[-1] for M in measurements]
    mu = CliqueVector.from_data(data, cliques)
    engine.measurements = measurements
    return engine._marginal_loss(mu, metric)[0]


def run_case(tag, public, private, cliques, noises, kind, metric, total, seed, w0=None):
    meas = make_measurements(seed, private, cliques, noises, kind)
    engine = PublicInference(public, metric=metric)
    if w0 is not None:
        engine.weights = w0.copy()
    df_before = public.df.values.copy()
    est = engine.estimate(meas, total=total)
    w = engine.weights
    print('== case', tag)
    show('weights', w)
    print('   est.weights is engine.weights:', est.weights is engine.weights,
          ' records unchanged:', bool((est.df.values == df_before).all()),
          ' cols:', list(est.df.columns), ' domain:', est.domain.attrs, est.domain.shape)
    print('   finite:', bool(np.isfinite(w).all()), ' nonneg:', bool((w >= 0).all()))
    tot = estimate_total(meas) if total is None else total
    print('   total used: %r' % float(tot))
    lm = metric if not callable(metric) else 'L2'
    new = recomputed_loss(engine, est, meas, lm)
    n = public.records
    start = engine0_weights(public, w0)
    unif = Dataset(public.df, public.domain, start * tot / start.sum())
    old = recomputed_loss(engine, unif, meas, lm)
    print('   loss(reweighted)=%r loss(start)=%r not_worse=%s' % (new, old, new <= old))
    for cl in cliques[:3]:
        show('   marginal %s' % (cl,), est.project(cl).datavector(flatten=False))


def engine0_weights(public, w0):
    return np.ones(public.records) if w0 is None else w0


def custom_metric_factory(engine_holder):
    def metric(marginals):
        eng = engine_holder[0]
        loss, grad = eng._marginal_loss(marginals, 'L2')
        return 2.0 * loss, 2.0 * grad
    return metric


def main():
    np.random.seed(0)

    # ---- direct exercise of the mirror-descent routine on synthetic objectives
    print('#### entropic_mirror_descent')
    for seed, n, total, iters in [(0, 7, 1.0, 250), (1, 12, 100.0, 40), (2, 5, 3.5, 1), (3, 9, 1e6, 250), (4, 4, 10, 0)]:
        prng = np.random.RandomState(seed)
        A = prng.rand(n + 3, n)
        b = A @ (prng.rand(n) * total / n * 2)
        calls = []

        def lg(p, A=A, b=b, calls=calls):
            calls.append(digest(p))
            r = A @ p - b
            return 0.5 * float(r @ r), A.T @ r
        x0 = prng.rand(n)
        if seed == 1:
            x0[2] = 0.0      # zero start weight -> log(0 + tiny)
        x0c = x0.copy()
        res = entropic_mirror_descent(lg, x0, total, iters) if iters != 250 else entropic_mirror_descent(lg, x0, total)
        show('emd seed=%d total=%r iters=%d' % (seed, total, iters), res)
        print('   ncalls=%d calls_sha=%s x0 untouched=%s' % (
            len(calls), hashlib.sha256(''.join(calls).encode()).hexdigest()[:16], bool((x0 == x0c).all())))

    # non-convex / badly scaled objective: exercises the rejection branch a lot
    def lg2(p):
        return float(np.sum(np.cos(3 * p)) + 1e3 * p[0] ** 2), -3 * np.sin(3 * p) + np.r_[2e3 * p[0], np.zeros(p.size - 1)]
    show('emd nonconvex', entropic_mirror_descent(lg2, np.arange(1.0, 7.0), 4.0, 60))

    # ---- estimate_total
    print('#### estimate_total')
    priv = make_public(10, 500, ['a', 'b', 'c'], [3, 4, 2])
    for kinds, noises in [(['eye'], [1.0, 5.0, 0.3]), (['partial'], [1.0, 1.0, 1.0]), (['prefix', 'csr', 'partial'], [10.0, 0.01, 2.0])]:
        m = make_measurements(5, priv, [('a',), ('b', 'c'), ('c', 'a')], noises, kinds)
        print('   kinds=%s noises=%s total=%r' % (kinds, noises, float(estimate_total(m))))
    print('   empty ->', repr(estimate_total([])))
    tiny = [(np.eye(2), np.array([0.1, 0.2]), 1.0, ('c',))]
    print('   tiny  ->', repr(estimate_total(tiny)))

    # ---- Dataset.datavector / project
    print('#### Dataset')
    d = make_public(11, 60, ['a', 'b', 'c'], [3, 4, 2], column_order=['c', 'a', 'b'], extra_col=True)
    print('   cols', list(d.df.columns), 'records', d.records)
    show('dv all', d.datavector())
    show('dv all nd', d.datavector(flatten=False))
    show('dv all nd kw', d.datavector(False))
    wts = np.random.RandomState(3).rand(60)
    wts[::7] = 0.0
    dw = Dataset(d.df, d.domain, wts)
    show('dv weighted', dw.datavector())
    for cols in ['b', ('c', 'a'), ['b', 'a'], ('a', 'b', 'c')]:
        p = dw.project(cols)
        show('proj %r %s' % (cols, p.domain.shape), p.datavector(flatten=False))
        print('      weights shared:', p.weights is wts, ' attrs:', p.domain.attrs, ' cols:', list(p.df.columns))
    show('drop b', dw.drop(['b']).datavector())
    one = Dataset(pd.DataFrame({'a': [2], 'b': [0]}), Domain(['a', 'b'], [3, 1]), np.array([2.5]))
    show('single record', one.datavector(flatten=False))
    empty = Dataset(pd.DataFrame({'a': np.array([], dtype=int)}), Domain(['a'], [3]))
    show('no records', empty.datavector())

    # ---- full PublicInference runs
    print('#### PublicInference')
    attrs, shape = ['a', 'b', 'c', 'd'], [3, 4, 2, 5]
    private = make_public(20, 800, attrs, shape)
    public = make_public(21, 150, attrs, shape)
    run_case('L2 eye estimated-total', public, private, [('a', 'b'), ('c',), ('b', 'd')], [3.0, 1.0, 8.0], ['eye'], 'L2', None, 1)
    run_case('L2 given total', public, private, [('a', 'b'), ('c',), ('b', 'd')], [3.0, 1.0, 8.0], ['eye'], 'L2', 1234.5, 1)
    run_case('L1 mixed queries', public, private, [('a',), ('d', 'c'), ('b',)], [0.5, 20.0, 2.0], ['prefix', 'csr', 'dense'], 'L1', None, 2)
    run_case('L2 repeated clique', public, private, [('a', 'b'), ('a', 'b'), ('b', 'a'), ('d',)], [1.0, 10.0, 0.1, 4.0], ['eye', 'prefix'], 'L2', None, 3)
    run_case('L2 partial only (total->1)', public, private, [('a',), ('c', 'd')], [1.0, 2.0], ['partial'], 'L2', None, 4)
    run_case('L2 integer total', public, private, [('c', 'd')], [2.0], ['csr'], 'L2', 800, 4)

    # permuted column order + extra column in the public frame, permuted domain order
    public2 = make_public(22, 90, ['d', 'b', 'a', 'c'], [5, 4, 3, 2], column_order=['a', 'c', 'd', 'b'], extra_col=True)
    run_case('permuted attrs', public2, private, [('d', 'a'), ('c', 'b'), ('a',)], [1.5, 0.7, 30.0], ['eye', 'csr'], 'L2', None, 5)

    # public records outside the private support: private has a==0 only, c==1 only
    pdf = private.df.copy()
    pdf['a'] = 0
    pdf['c'] = 1
    private3 = Dataset(pdf, private.domain)
    run_case('missing support', public, private3, [('a', 'c'), ('a',), ('c', 'b')], [0.2, 0.2, 1.0], ['eye'], 'L2', None, 6)
    run_case('missing support L1', public, private3, [('a', 'c'), ('b',)], [0.2, 5.0], ['eye', 'prefix'], 'L1', 800.0, 6)

    # non-uniform starting weights incl. exact zeros
    w0 = np.random.RandomState(9).rand(public.records)
    w0[:10] = 0.0
    run_case('nonuniform start', public, private, [('a', 'b'), ('d',)], [2.0, 2.0], ['eye'], 'L2', 500.0, 7, w0=w0)

    # callable metric
    holder = [None]
    metric = custom_metric_factory(holder)
    eng = PublicInference(public, metric=metric)
    holder[0] = eng
    meas = make_measurements(8, private, [('a', 'd'), ('b',)], [1.0, 3.0], ['eye'])
    est = eng.estimate(meas)
    print('== case callable metric')
    show('weights', eng.weights)
    show('   marginal', est.project(('a', 'd')).datavector())

    # second estimate() call on the same engine continues from the stored weights
    est2 = eng.estimate(make_measurements(9, private, [('c',)], [1.0], ['eye']), total=300.0)
    show('weights after 2nd estimate', eng.weights)

    # _marginal_loss directly
    print('#### _marginal_loss')
    eng = PublicInference(public)
    eng.measurements = make_measurements(12, private, [('a',), ('a',), ('b', 'c')], [1.0, 4.0, 0.5], ['eye', 'prefix', 'csr'])
    mu = CliqueVector.from_data(Dataset(public.df, public.domain, np.full(public.records, 2.0)), [('a',), ('b', 'c')])
    for m in ['L2', 'L1', None]:
        loss, grad = eng._marginal_loss(mu, m)
        print('   metric=%r loss=%r type=%s keys=%s' % (m, loss, type(loss).__name__, list(grad.keys())))
        for cl in grad:
            show('   grad %s' % (cl,), grad[cl].values)


if __name__ == '__main__':
    main()

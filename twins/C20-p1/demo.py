"""
C20 / pair 1 -- mechanisms/mst.py :: exponential_mechanism

Clause exercised: the selection primitive picks candidate i with probability
proportional to exp(eps * q_i / (2 * sensitivity))  (exp(eps * q_i / sensitivity)
in the declared monotonic variant) -- for EVERY sensitivity, not only the value 1.0
that the in-repo caller (mst.select) happens to pass.

The demo records the p= argument handed to prng.choice() and compares it with the
definition evaluated independently in extended precision.
exit 0 + "PASS" + digest  : calibrated for all cases
exit 1 + "FAIL" + details : some case is mis-scaled
"""
import os
import sys
import hashlib
import itertools
import warnings

warnings.filterwarnings('ignore')

ROOT = os.path.dirname(os.path.dirname(os.path.dirname(os.path.dirname(os.path.abspath(__file__)))))
sys.path.insert(0, ROOT)
sys.path.insert(0, os.path.join(ROOT, 'src'))

import numpy as np
import pandas as pd
import mbi
from mbi import Dataset, Domain
import mechanisms.mst as mst

assert os.path.abspath(mbi.__file__).startswith(ROOT), mbi.__file__
assert os.path.abspath(mst.__file__).startswith(ROOT), mst.__file__


class RecordingPrng:
    """ stands in for np.random: remembers the p= of every choice() call """
    def __init__(self, seed):
        self.state = np.random.RandomState(seed)
        self.calls = []

    def choice(self, a, p=None, **kw):
        self.calls.append((a, None if p is None else np.array(p, dtype=float)))
        return self.state.choice(a, p=p, **kw)


def reference(q, eps, sensitivity, monotonic):
    """ the definition, in extended precision """
    q = np.asarray(q, dtype=np.longdouble)
    c = np.longdouble(eps) / np.longdouble(sensitivity)
    if not monotonic:
        c = c / 2
    w = np.exp(c * (q - q.max()))
    return np.asarray(w / w.sum(), dtype=float)


QUALITIES = [
    ('small', np.array([0.0, 1.0, 2.0, 3.5])),
    ('ties', np.array([5.0, 5.0, 1.0, 5.0, 0.0, 1.0])),
    ('negative', np.array([-3.0, -0.25, -7.5, -0.25])),
    ('l1-errors', np.array([812.0, 640.0, 655.5, 790.25, 12.0])),
    ('huge', np.array([1e6, 1e6 - 3.0, 1e6 - 1.5, 9.99e5, -1e6])),
    ('single', np.array([42.0])),
]
EPSILONS = [0.1, 1.0, 2.5, float(np.sqrt(8 * 0.01 / 3))]
SENSITIVITIES = [1.0, 0.5, 2.0, 3.0]

TOL = 1e-8   # mst.py does not max-shift, so |scores| ~ 1e6 costs a few ulps of 1e6
failures = []
lines = []
digest = hashlib.sha256()

# ---- 1. the primitive itself, over a grid of inputs ------------------------
for (name, q), eps, sens, mono in itertools.product(QUALITIES, EPSILONS, SENSITIVITIES, [False, True]):
    prng = RecordingPrng(0)
    idx = mst.exponential_mechanism(q.copy(), eps, sens, prng=prng, monotonic=mono)
    assert len(prng.calls) == 1
    n, p = prng.calls[0]
    ref = reference(q, eps, sens, mono)
    err = float(np.abs(p - ref).max())
    digest.update(p.tobytes())
    digest.update(str(int(idx)).encode())
    if not (n == q.size and err <= TOL and abs(p.sum() - 1) <= 1e-9):
        failures.append('q=%-9s eps=%.4f sensitivity=%.1f monotonic=%-5s  max|p - definition| = %.3e\n'
                        '      p          = %s\n      definition = %s'
                        % (name, eps, sens, mono, err, np.round(p, 6), np.round(ref, 6)))

lines.append('grid: %d cases' % (len(QUALITIES) * len(EPSILONS) * len(SENSITIVITIES) * 2))

# ---- 2. shift invariance through the primitive -----------------------------
for (name, q), sens in itertools.product(QUALITIES[:4], SENSITIVITIES):
    ps = []
    for shift in [0.0, 1234.5, -1e5]:
        prng = RecordingPrng(1)
        mst.exponential_mechanism(q + shift, 1.0, sens, prng=prng)
        ps.append(prng.calls[0][1])
        digest.update(ps[-1].tobytes())
    spread = max(float(np.abs(ps[0] - x).max()) for x in ps[1:])
    if spread > 1e-9:
        failures.append('shift invariance q=%s sensitivity=%.1f spread=%.3e' % (name, sens, spread))
lines.append('shift: %d cases' % (4 * len(SENSITIVITIES)))

# ---- 3. the in-repo caller: mst.select (always sensitivity=1.0) -------------
rs = np.random.RandomState(7)
a = rs.randint(0, 3, 400)
b = (a + (rs.rand(400) < 0.2)) % 3
c = rs.randint(0, 2, 400)
d = (c + (rs.rand(400) < 0.4)) % 2
domain = Domain(['a', 'b', 'c', 'd'], [3, 3, 2, 2])
data = Dataset(pd.DataFrame({'a': a, 'b': b, 'c': c, 'd': d}), domain)

np.random.seed(11)
log1 = mst.measure(data, [(col,) for col in domain], 5.0)



class ProductModel:
    """ deterministic stand-in for the fitted model: product of the noisy one-way marginals
        (FactoredInference.estimate is not bit-reproducible from run to run, and the property is
        about the selection step, not about estimation) """
    def __init__(self, log):
        self.marg = {}
        for Q, y, sigma, proj in log:
            v = np.clip(np.asarray(y, dtype=float), 1.0, None)
            self.marg[proj[0]] = v / v.sum()
        self.total = float(np.mean([np.sum(y) for _, y, _, _ in log]))
        self.cols = None

    def project(self, cols):
        out = ProductModel.__new__(ProductModel)
        out.marg, out.total, out.cols = self.marg, self.total, list(cols)
        return out

    def datavector(self):
        v = np.ones(1)
        for col in self.cols:
            v = np.outer(v, self.marg[col]).ravel()
        return self.total * v


class ProductEngine:
    def __init__(self, domain, **kw):
        pass

    def estimate(self, log, *args, **kw):
        return ProductModel(log)


recorded = []
orig_choice = np.random.choice
orig_engine = mst.FactoredInference


def spy_choice(n, *args, **kw):
    recorded.append((n, np.array(kw['p'], dtype=float)))
    return orig_choice(n, *args, **kw)


seen_q = []
orig_em = mst.exponential_mechanism


def spy_em(q, eps, sensitivity, *args, **kw):
    seen_q.append((np.array(q, dtype=float), float(eps), float(sensitivity)))
    return orig_em(q, eps, sensitivity, *args, **kw)


np.random.choice = spy_choice
mst.exponential_mechanism = spy_em
mst.FactoredInference = ProductEngine
try:
    rho = 0.05
    edges = mst.select(data, rho, log1)
finally:
    np.random.choice = orig_choice
    mst.exponential_mechanism = orig_em
    mst.FactoredInference = orig_engine

assert len(recorded) == len(seen_q) == 3, (len(recorded), len(seen_q))
for (n, p), (q, eps, sens) in zip(recorded, seen_q):
    ref = reference(q, eps, sens, False)
    err = float(np.abs(p - ref).max())
    digest.update(p.tobytes())
    if err > TOL or abs(eps - np.sqrt(8 * rho / 3)) > 1e-15 or sens != 1.0:
        failures.append('mst.select round: eps=%.6f sensitivity=%.1f max|p - definition| = %.3e' % (eps, sens, err))
lines.append('select: %d rounds, tree %s' % (len(recorded), sorted(tuple(sorted(e)) for e in edges)))

if failures:
    print('FAIL: mst.exponential_mechanism is not calibrated to exp(eps*q/(2*sensitivity)) in %d case(s)' % len(failures))
    for f in failures[:8]:
        print('  -', f)
    if len(failures) > 8:
        print('  ... and %d more' % (len(failures) - 8))
    sys.exit(1)

print('PASS')
for l in lines:
    print(l)
print('digest', digest.hexdigest())
sys.exit(0)

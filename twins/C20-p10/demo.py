"""C20 pair 2 - Mechanism.exponential_mechanism / generalized_exponential_mechanism:
base measures that contain zeros.

Definition checked:  p_i  proportional to  base_i * exp(eps * q_i / (2 * sensitivity)).
A candidate of base measure 0 has probability exactly 0, whatever its quality,
and the remaining mass is shared by the others according to the definition.
"""
import os, sys, hashlib, warnings
warnings.filterwarnings('ignore')

ROOT = os.path.dirname(os.path.dirname(os.path.dirname(os.path.abspath(__file__))))
sys.path.insert(0, ROOT)
sys.path.insert(0, os.path.join(ROOT, 'src'))

import numpy as np
import mechanisms.mechanism as mm
assert os.path.abspath(mm.__file__).startswith(ROOT), mm.__file__
from mechanisms.mechanism import Mechanism, generalized_em_scores


class Recorder:
    def __init__(self):
        self.calls = []

    def choice(self, n, p=None, **kw):
        self.calls.append((n, np.array(p, dtype=float)))
        return int(np.nanargmax(p))


def reference(q, base, eps, sens):
    """base_i * exp(eps q_i / (2 sens)) / Z, evaluated over the support of base."""
    q = np.asarray(q, dtype=float)
    base = np.asarray(base, dtype=float)
    out = np.zeros(q.size)
    sup = base > 0
    q = q - q.max()          # exact for these inputs; keeps the reference itself well conditioned
    s = 0.5 * eps / sens * q[sup] + np.log(base[sup])
    w = np.exp(s - s.max())
    out[sup] = w / w.sum()
    return out


failures = []
lines = []
digest = hashlib.sha256()


def run_em(label, qual, base, eps, sens):
    rec = Recorder()
    mech = Mechanism(1.0, 0.0, bounded=False, prng=rec)
    keys = list(qual.keys())
    got_key = mech.exponential_mechanism(qual, eps, sens, base_measure=base)
    n, p = rec.calls[0]
    want = reference([qual[k] for k in keys], [base[k] for k in keys], eps, sens)
    compare(label, keys, p, want, [base[k] for k in keys], got_key)


def run_gem(label, qual, sens_d, base, eps, t):
    rec = Recorder()
    mech = Mechanism(1.0, 0.0, bounded=False, prng=rec)
    keys = list(qual.keys())
    got_key = mech.generalized_exponential_mechanism(qual, sens_d, eps, t=t, base_measure=base)
    n, p = rec.calls[0]
    scores = generalized_em_scores(np.array([qual[k] for k in keys], dtype=float),
                                   np.array([sens_d[k] for k in keys], dtype=float), t)
    want = reference(scores, [base[k] for k in keys], eps, 1.0)
    compare(label, keys, p, want, [base[k] for k in keys], got_key)


def compare(label, keys, p, want, base, got_key):
    base = np.asarray(base, dtype=float)
    if not np.all(np.isfinite(p)):
        failures.append('%s: p is not finite: %s' % (label, p))
        return
    err = float(np.abs(p - want).max())
    zero_mass = float(p[base == 0].sum()) if (base == 0).any() else 0.0
    if not err <= 1e-9:
        msg = '%s: p deviates from base*exp(eps q/2s)/Z by %.3g' % (label, err)
        if zero_mass > 1e-9:
            msg += '; candidates of base measure 0 receive total probability %.6g (must be 0)' % zero_mass
        failures.append(msg)
        return
    digest.update(np.round(p, 12).tobytes())
    digest.update(repr(got_key).encode())
    lines.append('%-40s picked=%-8r p=%s' % (label, got_key, np.array2string(p, precision=5, max_line_width=200)))


rs = np.random.RandomState(2020)

# --- strictly positive base measures (several shapes, key types, orders)
for trial in range(4):
    n = 4 + trial
    keys = [('a%d' % i, 'b') for i in range(n)] if trial % 2 else list(range(n))
    q = dict(zip(keys, rs.rand(n) * 10))
    b = dict(zip(reversed(keys), rs.randint(1, 6, n)))        # different insertion order
    for eps, sens in [(1.0, 1.0), (0.4, 2.0)]:
        run_em('positive base #%d eps=%g s=%g' % (trial, eps, sens), q, b, eps, sens)

# --- ties and huge magnitudes, positive base
q = {'u': 1e6, 'v': 1e6, 'w': 1e6 - 2.0, 'x': -1e6}
b = {'u': 1.0, 'v': 3.0, 'w': 0.5, 'x': 7.0}
run_em('ties+huge, positive base', q, b, 1.0, 1.0)

# --- zeros in the base measure, zero-mass candidate NOT the best one
q = {'u': 3.0, 'v': 5.0, 'w': 4.0, 'x': 1.0}
b = {'u': 2, 'v': 1, 'w': 0, 'x': 0}
run_em('zero base, modest scores', q, b, 1.0, 1.0)
run_em('zero base, modest scores eps=5', q, b, 5.0, 0.5)

# --- zeros in the base measure, zero-mass candidate is far better than the rest
q = {'u': 10.0, 'v': 12.0, 'w': 5000.0, 'x': 11.0}
b = {'u': 1.0, 'v': 1.0, 'w': 0.0, 'x': 2.0}
run_em('zero base on best, lead 5e3', q, b, 1.0, 1.0)
q = {'u': 2e5, 'v': 1e6, 'w': 2e5 + 1.0, 'x': 2e5 - 1.0}
b = {'u': 1, 'v': 0, 'w': 1, 'x': 4}
run_em('zero base on best, scores 1e6', q, b, 1.0, 1.0)
run_em('zero base on best, scores 1e6 eps=.01', q, b, 0.01, 2.0)

# --- generalized exponential mechanism, same situations
q = {'u': 3.0, 'v': 9.0, 'w': 4.0}
s = {'u': 1.0, 'v': 2.0, 'w': 1.0}
run_gem('GEM positive base', q, s, {'u': 1, 'v': 2, 'w': 3}, 1.0, 0.5)
run_gem('GEM zero base, modest', q, s, {'u': 1, 'v': 0, 'w': 3}, 1.0, 0.5)
q = {'u': 3.0, 'v': 9e5, 'w': 4.0}
run_gem('GEM zero base on best, 9e5', q, s, {'u': 1, 'v': 0, 'w': 3}, 1.0, 0.5)

if failures:
    print('FAIL')
    for f in failures:
        print('  -', f)
    sys.exit(1)

print('PASS')
for l in lines:
    print(l)
print('digest', digest.hexdigest())

"""C20 pair 1 - mechanisms/mst.py :: exponential_mechanism, buffer handling.

The selection primitive must pick candidate i with probability proportional
to exp(coef*eps*q_i/sensitivity) (coef = 1/2, or 1 in the monotonic variant)
on EVERY call - also when the caller keeps its quality vector and hands the
very same array to the primitive again (several rounds of selection over the
same scores, e.g. selection with replacement or a caller that masks entries).

The demo records the p= argument of the choice() call and compares it with
the definition evaluated on a pristine copy of the scores.
"""
import os, sys, hashlib, warnings
warnings.filterwarnings('ignore')
ROOT = os.path.dirname(os.path.dirname(os.path.dirname(os.path.abspath(__file__))))
sys.path.insert(0, ROOT)
sys.path.insert(0, os.path.join(ROOT, 'src'))
import numpy as np
from mechanisms import mst


class Recorder:
    """ stands in for the prng: records p and samples with a seeded stream """
    def __init__(self, seed):
        self.rs = np.random.RandomState(seed)
        self.p = None
    def choice(self, n, p=None):
        self.n, self.p = n, np.array(p, dtype=float)
        return self.rs.choice(n, p=p)


def definition(q, eps, sens, monotonic):
    q = np.array(q, dtype=np.longdouble)
    c = (1.0 if monotonic else 0.5)*eps/sens
    w = np.exp(c*(q - q.max()))
    return np.array(w/w.sum(), dtype=float)


rs = np.random.RandomState(20)
vectors = {
    'float_small': rs.rand(6)*10,
    'float_ties': np.array([3.5, 3.5, 1.25, 3.5, 0.0]),
    'float_huge': 1e6 + rs.rand(5)*40,
    'float_neg': -rs.rand(4)*30 - 1e5,
    'int_counts': np.array([12, 7, 7, 30, 0, 19]),
    'single': np.array([4.0]),
    'errors_l1': np.array([120.0, 96.0, 101.5, 87.25, 118.0, 64.0, 99.0]),
}
configs = [(1.0, 1.0, False), (2.0, 1.0, False), (0.3, 2.0, False),
           (0.8, 1.0, True), (0.05, 0.5, False), (3.0, 4.0, True)]

lines, problems = [], []
for name, q0 in vectors.items():
    for eps, sens, mono in configs:
        q = q0.copy()              # the caller's own array, reused for 3 rounds
        rec = Recorder(7)
        for rnd in range(3):
            idx = mst.exponential_mechanism(q, eps, sens, prng=rec, monotonic=mono)
            want = definition(q0, eps, sens, mono)
            err = float(np.abs(rec.p - want).max())
            ok = rec.n == q0.size and rec.p.shape == want.shape and err < 1e-8 \
                 and abs(rec.p.sum() - 1) < 1e-9
            if not ok:
                problems.append('%s eps=%g sens=%g monotonic=%s call #%d: p deviates from the '
                                'definition by %.3g (caller array %s)' % (name, eps, sens, mono,
                                rnd+1, err, 'unchanged' if np.array_equal(q, q0) else 'was MODIFIED by the primitive'))
            lines.append('%s %g %g %d %d %d %s' % (name, eps, sens, mono, rnd, idx,
                         ' '.join('%.10f' % v for v in rec.p)))

# a caller that keeps one score vector and masks what it has already taken
q0 = vectors['errors_l1']
q = q0.copy()
rec = Recorder(3)
alive = np.ones(q.size, dtype=bool)
for rnd in range(4):
    view = q[alive]                       # fancy indexing: a fresh array
    idx = mst.exponential_mechanism(view, 0.2, 1.0, prng=rec)
    want = definition(q0[alive], 0.2, 1.0, False)
    if np.abs(rec.p - want).max() > 1e-8:
        problems.append('masked selection round %d deviates' % rnd)
    lines.append('masked %d %d %s' % (rnd, idx, ' '.join('%.10f' % v for v in rec.p)))
    alive[np.flatnonzero(alive)[idx]] = False

# shift invariance, on a reused array
q = vectors['float_small'].copy(); qs = q + 1e6
ra, rb = Recorder(1), Recorder(1)
for rnd in range(2):
    mst.exponential_mechanism(q, 1.5, 1.0, prng=ra)
    mst.exponential_mechanism(qs, 1.5, 1.0, prng=rb)
    d = float(np.abs(ra.p - rb.p).max())
    if d > 1e-8:
        problems.append('adding a constant to all qualities changed p by %.3g on call #%d' % (d, rnd+1))
    lines.append('shift %d %s' % (rnd, ' '.join('%.8f' % v for v in ra.p)))

digest = hashlib.sha256('\n'.join(lines).encode()).hexdigest()
if problems:
    print('FAIL: mst.exponential_mechanism does not sample from the exponential-mechanism distribution')
    for p in problems[:12]:
        print('  -', p)
    print('  (%d deviations in total)' % len(problems))
    sys.exit(1)
print('PASS %d recorded selections, digest %s' % (len(lines), digest))

"""C20 pair 2 - mechanisms/mwem+pgm.py :: worst_approximated, the score vector.

worst_approximated must pick marginal cl with probability proportional to
exp(eps * score_cl / (2*sensitivity)), sensitivity = 2 if bounded else 1, where
score_cl = || true_cl - model_cl ||_1 - (number of cells of cl if penalty else 0).
Both settings of `penalty` are part of the interface (MWEM as originally
described uses the plain L1 error, i.e. penalty=False).

The demo records the p= argument of numpy.random.choice and compares it with
the definition.
"""
import os, sys, hashlib, warnings, importlib.util
warnings.filterwarnings('ignore')
ROOT = os.path.dirname(os.path.dirname(os.path.dirname(os.path.abspath(__file__))))
sys.path.insert(0, ROOT)
sys.path.insert(0, os.path.join(ROOT, 'src'))
import numpy as np
import pandas as pd
import itertools
from scipy import sparse
from mbi import Dataset, Domain, FactoredInference

spec = importlib.util.spec_from_file_location('mwem_pgm', os.path.join(ROOT, 'mechanisms', 'mwem+pgm.py'))
mwem = importlib.util.module_from_spec(spec)
spec.loader.exec_module(mwem)

# ---- a small data set and a model that fits it only partially -------------
rs = np.random.RandomState(2020)
domain = Domain(['a', 'b', 'c', 'd'], [2, 3, 4, 2])
N = 400
a = rs.randint(0, 2, N)
b = (a + rs.randint(0, 2, N)) % 3
c = (b + rs.randint(0, 3, N)) % 4
d = (rs.rand(N) < 0.2 + 0.6*a).astype(int)
data = Dataset(pd.DataFrame({'a': a, 'b': b, 'c': c, 'd': d}), domain)

x = data.project(('a', 'b')).datavector()
y = x + rs.normal(0, 2.0, x.size)
engine = FactoredInference(domain, log=False, iters=300)
est = engine.estimate([(sparse.eye(x.size), y, 1.0, ('a', 'b'))])

workloads = {
    'pairs': list(itertools.combinations(domain.attrs, 2)),
    'mixed': [('a',), ('c',), ('a', 'b'), ('b', 'c', 'd'), ('a', 'c', 'd'), ('c', 'd')],
    'one': [('b', 'd')],
}

# ---- observe the p= argument of the choice() call -------------------------
seen = {}
sampler = np.random.RandomState(5)
def recording_choice(n, size=None, replace=True, p=None):
    seen['n'], seen['p'] = n, np.array(p, dtype=float)
    return sampler.choice(n, p=p)
np.random.choice = recording_choice


def definition(workload, answers, eps, penalty, bounded):
    score = []
    for cl in workload:
        l1 = np.abs(answers[cl] - est.project(cl).datavector()).sum()
        score.append(l1 - (domain.size(cl) if penalty else 0))
    score = np.array(score, dtype=np.longdouble)
    sens = 2.0 if bounded else 1.0
    w = np.exp(0.5*eps/sens*(score - score.max()))
    return np.array(w/w.sum(), dtype=float), np.array(score, dtype=float)


lines, problems = [], []
for wname, workload in workloads.items():
    answers = {cl: data.project(cl).datavector() for cl in workload}
    for eps in [0.01, 0.05, 0.4]:
        for penalty in [True, False]:
            for bounded in [False, True]:
                kw = dict(bounded=bounded)
                if not penalty:
                    kw['penalty'] = False       # default is True
                got = mwem.worst_approximated(answers, est, workload, eps, **kw)
                want, score = definition(workload, answers, eps, penalty, bounded)
                p = seen['p']
                err = float(np.abs(p - want).max()) if p.shape == want.shape else np.inf
                if not (seen['n'] == len(workload) and err < 1e-9 and got in workload):
                    problems.append('workload=%s eps=%g penalty=%s bounded=%s: p deviates from the definition '
                                    'by %.3g\n      scores %s\n      p      %s\n      wanted %s' % (
                                    wname, eps, penalty, bounded, err, np.round(score, 2), np.round(p, 4), np.round(want, 4)))
                lines.append('%s %g %d %d %s %s' % (wname, eps, penalty, bounded, '-'.join(got),
                             ' '.join('%.10f' % v for v in p)))

digest = hashlib.sha256('\n'.join(lines).encode()).hexdigest()
if problems:
    print('FAIL: worst_approximated does not select with probability proportional to exp(eps*score/(2*sensitivity))')
    for msg in problems[:6]:
        print('  -', msg)
    print('  (%d deviating configurations in total)' % len(problems))
    sys.exit(1)
print('PASS %d recorded selections, digest %s' % (len(lines), digest))

"""C20 pair 1 - generalized exponential mechanism: the Pareto front that
`generalized_em_scores` maximises over (mechanisms/mechanism.py :: pareto_efficient).

The generalized exponential mechanism must pick candidate i with probability
proportional to  base_i * exp(eps * s_i / 2)  where s_i is the sensitivity-1 score

    s_i = - max_j ((q_j - t*ds_j) - (q_i - t*ds_i)) / (ds_i + ds_j)     (max over ALL j)

`pareto_efficient` is only an optimisation: restricting j to the Pareto front of
(-q, ds) must not change any s_i.  This program compares the p= vector handed to
prng.choice() with the brute-force definition (max over all j).
"""
import os, sys, types, hashlib, warnings

ROOT = os.path.dirname(os.path.dirname(os.path.dirname(os.path.abspath(__file__))))
sys.path.insert(0, ROOT)
sys.path.insert(0, os.path.join(ROOT, 'src'))
warnings.simplefilter('ignore')

try:
    import autodp  # noqa
except ImportError:       # minimal stand-in, only needed so that mechanism.py imports
    pc = types.ModuleType('autodp.privacy_calibrator')
    pc.ana_gaussian_mech = lambda eps, delta: {'sigma': 1.0}
    pc.gaussian_mech = lambda eps, delta: {'sigma': 1.0}
    pkg = types.ModuleType('autodp'); pkg.privacy_calibrator = pc
    sys.modules['autodp'] = pkg; sys.modules['autodp.privacy_calibrator'] = pc

import numpy as np
from scipy.special import softmax
from mechanisms.mechanism import Mechanism


class Recorder:
    """ stands in for the prng: records the p= vector of the choice() call """
    def __init__(self):
        self.p = None
    def choice(self, n, p=None):
        self.p = np.array(p, dtype=float)
        return int(np.argmax(p))


def reference(q, ds, eps, t, log_base=None):
    q = np.asarray(q, dtype=float); ds = np.asarray(ds, dtype=float)
    if t is None:
        t = 2*np.log(q.size / 0.5) / eps
    r = q - t*ds
    num = r[None, :] - r[:, None]            # [i, j] = r_j - r_i
    den = ds[:, None] + ds[None, :]
    s = -(num/den).max(axis=1)               # max over ALL j
    logits = 0.5*eps*(s - s.max())
    if log_base is not None:
        logits = logits + log_base
    return softmax(logits)


def cases():
    rs = np.random.RandomState(20)
    out = []
    # (name, q, ds, eps, t, base)       -- array inputs
    out.append(('equal-sens', rs.rand(8)*50, np.ones(8), 1.0, None, None))
    out.append(('equal-sens-ties', np.array([3., 7., 7., 1., 7.]), np.full(5, 2.0), 0.7, None, None))
    out.append(('one-candidate', np.array([4.0]), np.array([3.0]), 1.0, None, None))
    out.append(('mixed-sens-small', np.array([10., 12., 9., 30.]), np.array([1., 2., 0.5, 8.]), 1.0, None, None))
    out.append(('mixed-sens-random', rs.rand(12)*40, rs.randint(1, 6, 12).astype(float), 0.5, None, None))
    out.append(('mixed-sens-ties', np.array([5., 5., 8., 8., 2., 8.]), np.array([1., 3., 2., 2., 1., 4.]), 2.0, None, None))
    out.append(('mixed-sens-huge', rs.rand(10)*1e6, 10.0**rs.randint(0, 4, 10), 0.1, None, None))
    out.append(('mixed-sens-t0', rs.rand(9)*20, rs.rand(9)*3 + 0.25, 1.5, 0.0, None))
    out.append(('mixed-sens-t5', rs.rand(9)*20, rs.rand(9)*3 + 0.25, 1.5, 5.0, None))
    out.append(('quality-follows-sens', np.arange(1., 8.)*10, np.arange(1., 8.), 1.0, None, None))
    out.append(('mixed-sens-logbase', rs.rand(7)*30, rs.randint(1, 4, 7).astype(float), 1.0, None,
                np.log(rs.rand(7) + 0.1)))
    return out


def main():
    lines, bad = [], []
    rec = Recorder()
    mech = Mechanism(1.0, 0.0, bounded=False, prng=rec)

    def check(name, p, ref):
        err = float(np.abs(p - ref).max()) if p.shape == ref.shape else float('inf')
        lines.append('%-28s %s' % (name, ' '.join('%.10f' % v for v in p)))
        if not (err < 1e-9 and abs(p.sum() - 1) < 1e-9):
            bad.append('%s: selection probabilities differ from the definition by %.3g\n    got  %s\n    want %s'
                       % (name, err, np.round(p, 6), np.round(ref, 6)))

    for name, q, ds, eps, t, base in cases():
        q0, ds0 = q.copy(), ds.copy()
        mech.generalized_exponential_mechanism(q, ds, eps, t=t, base_measure=base)
        check(name, rec.p, reference(q0, ds0, eps, t, base))
        assert (q == q0).all() and (ds == ds0).all()
        # adding a constant to all qualities must not matter
        mech.generalized_exponential_mechanism(q + 1234.5, ds, eps, t=t, base_measure=base)
        check(name + '+const', rec.p, reference(q0, ds0, eps, t, base))

    # dictionary inputs (cliques as keys), linear base measure
    rs = np.random.RandomState(7)
    keys = [('a',), ('b',), ('a', 'b'), ('b', 'c'), ('a', 'c'), ('c',)]
    qd = {k: float(v) for k, v in zip(keys, rs.rand(6)*25)}
    sd = {k: float(len(k))*1.5 for k in keys}
    bd = {k: float(v) for k, v in zip(keys, rs.rand(6) + 0.2)}
    for nm, b in (('dict', None), ('dict-base', bd)):
        got = mech.generalized_exponential_mechanism(dict(qd), dict(sd), 0.8, base_measure=b)
        lb = None if b is None else np.log([b[k] for k in keys])
        check(nm, rec.p, reference([qd[k] for k in keys], [sd[k] for k in keys], 0.8, None, lb))
        lines.append('%-28s -> %r' % (nm, got))

    digest = hashlib.sha256('\n'.join(lines).encode()).hexdigest()
    if bad:
        print('FAIL: the generalized exponential mechanism does not sample from its definition')
        for b in bad:
            print('  ' + b)
        sys.exit(1)
    print('PASS (%d distributions checked)' % (len(lines) - 2))
    print('digest', digest)
    sys.exit(0)


if __name__ == '__main__':
    main()

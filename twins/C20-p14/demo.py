"""C20 pair 2 - MWEM+PGM: scale of the noise added to a selected marginal
(mechanisms/mwem+pgm.py :: mwem_pgm).

Every measured marginal must be perturbed with noise of scale

    laplace :  S1 / (alpha * epsilon/rounds)                  S1 = 2       if bounded else 1
    gaussian:  S2 * sqrt(0.5 / (alpha * rho/rounds))          S2 = sqrt(2) if bounded else 1

(the sensitivity of a marginal doubles in L1 / grows by sqrt(2) in L2 when
neighbours differ by REPLACING a record).  This program runs mwem_pgm on a small
dataset for several configurations, records the scale= argument of every
np.random.laplace / np.random.normal call and the p= argument of every selection,
and compares the scales with the formulas above.
"""
import os, sys, io, types, hashlib, warnings, contextlib, importlib.util

ROOT = os.path.dirname(os.path.dirname(os.path.dirname(os.path.abspath(__file__))))
sys.path.insert(0, ROOT)
sys.path.insert(0, os.path.join(ROOT, 'src'))
warnings.simplefilter('ignore')

import numpy as np
import pandas as pd
import mbi
from mbi import Dataset, Domain, GraphicalModel
from mechanisms.cdp2adp import cdp_rho

assert os.path.abspath(mbi.__file__).startswith(os.path.join(ROOT, 'src')), mbi.__file__

spec = importlib.util.spec_from_file_location('mwem_pgm_mod', os.path.join(ROOT, 'mechanisms', 'mwem+pgm.py'))
mwem = importlib.util.module_from_spec(spec)
spec.loader.exec_module(mwem)


def make_data():
    rs = np.random.RandomState(3)
    dom = Domain(['a', 'b', 'c', 'd'], [2, 3, 4, 2])
    a = rs.randint(0, 2, 300)
    b = (a + rs.randint(0, 2, 300)) % 3
    c = rs.randint(0, 4, 300)
    d = (c % 2) ^ (rs.rand(300) < 0.1)
    df = pd.DataFrame({'a': a, 'b': b, 'c': c, 'd': d.astype(int)})
    return Dataset(df, dom)


class Recording:
    """ records scale= of the noise draws (returning zero noise) and p= of the selections """
    def __enter__(self):
        self.draws, self.sel = [], []
        self.saved = (np.random.laplace, np.random.normal, np.random.choice, GraphicalModel.synthetic_data)
        state = np.random.RandomState(11)
        def laplace(loc=0.0, scale=1.0, size=None):
            self.draws.append(('laplace', float(scale), size)); return np.zeros(size)
        def normal(loc=0.0, scale=1.0, size=None):
            self.draws.append(('normal', float(scale), size)); return np.zeros(size)
        def choice(a, size=None, replace=True, p=None):
            self.sel.append(np.array(p, dtype=float)); return state.choice(a, size, replace, p)
        np.random.laplace, np.random.normal, np.random.choice = laplace, normal, choice
        GraphicalModel.synthetic_data = lambda self_, *a, **k: None
        return self
    def __exit__(self, *exc):
        np.random.laplace, np.random.normal, np.random.choice, GraphicalModel.synthetic_data = self.saved


def expected_scale(noise, bounded, epsilon, delta, rounds, alpha):
    if noise == 'laplace':
        return (2.0 if bounded else 1.0) / (alpha * epsilon / rounds)
    rho = cdp_rho(epsilon, delta)
    return (np.sqrt(2.0) if bounded else 1.0) * np.sqrt(0.5 / (alpha * rho / rounds))


CONFIGS = [  # noise, bounded, epsilon, delta, rounds, alpha
    ('laplace',  False, 1.0, 0.0,  3, 0.9),
    ('laplace',  True,  1.0, 0.0,  3, 0.9),
    ('laplace',  True,  0.3, 0.0,  2, 0.5),
    ('gaussian', False, 1.0, 1e-6, 3, 0.9),
    ('gaussian', False, 2.5, 1e-9, 4, 0.7),
    ('gaussian', True,  1.0, 1e-6, 3, 0.9),
    ('gaussian', True,  0.5, 1e-9, 2, 0.6),
]


def main():
    data = make_data()
    lines, bad = [], []
    for noise, bounded, eps, delta, rounds, alpha in CONFIGS:
        name = '%s bounded=%s eps=%g delta=%g rounds=%d alpha=%g' % (noise, bounded, eps, delta, rounds, alpha)
        with Recording() as rec, contextlib.redirect_stdout(io.StringIO()):
            mwem.mwem_pgm(data, eps, delta, rounds=rounds, pgm_iters=25, noise=noise, bounded=bounded, alpha=alpha)
        want = expected_scale(noise, bounded, eps, delta, rounds, alpha)
        kinds = sorted(set(k for k, _, _ in rec.draws))
        scales = [s for _, s, _ in rec.draws]
        lines.append(name)
        lines.append('  draws %s x%d scale %s' % (kinds, len(scales), ' '.join('%.9e' % s for s in scales)))
        for p in rec.sel:
            lines.append('  select ' + ' '.join('%.8f' % v for v in p))
        if len(scales) != rounds or kinds != [{'laplace': 'laplace', 'gaussian': 'normal'}[noise]]:
            bad.append('%s: expected %d %s draws, saw %s' % (name, rounds, noise, rec.draws))
        for s in scales:
            if not abs(s - want) <= 1e-9 * want:
                bad.append('%s: marginal perturbed with scale %.6f, calibration requires %.6f (ratio %.4f)'
                           % (name, s, want, s / want))
                break
    digest = hashlib.sha256('\n'.join(lines).encode()).hexdigest()
    if bad:
        print('FAIL: MWEM+PGM does not draw its measurement noise with the calibrated scale')
        for b in bad:
            print('  ' + b)
        sys.exit(1)
    print('PASS (%d configurations)' % len(CONFIGS))
    for l in lines:
        if not l.startswith('  select'):
            print(l)
    print('digest', digest)
    sys.exit(0)


if __name__ == '__main__':
    main()

"""C20 / pair 1 - adaptive_grid.exponential_mechanism, the `eps == inf` branch.

The primitive must pick candidate i with probability proportional to
exp(coef*eps*q_i/sensitivity) (coef = 1/2, or 1 for the monotonic variant).
In the noiseless configuration eps = inf that limit is the UNIFORM law over
the maximisers of q: tied best candidates are equally likely.

Exit 0 + PASS + digest when every recorded `p=` vector matches the definition,
exit 1 + FAIL otherwise.
"""
import os, sys, json, hashlib, warnings

ROOT = os.path.dirname(os.path.dirname(os.path.dirname(os.path.abspath(__file__))))
sys.path.insert(0, ROOT)
sys.path.insert(0, os.path.join(ROOT, "src"))
warnings.simplefilter("ignore")

import numpy as np
np.seterr(all="ignore")

from mechanisms import adaptive_grid as ag

assert os.path.abspath(ag.__file__).startswith(ROOT), ag.__file__


class Recorder:
    """Stands in for the prng: records the p= vector handed to choice()."""
    def __init__(self):
        self.calls = []

    def choice(self, n, size=None, replace=True, p=None):
        self.calls.append((n, None if p is None else np.array(p, dtype=float)))
        return 0


def reference(q, eps, sensitivity, monotonic):
    q = np.asarray(q, dtype=float)
    if eps == np.inf:
        best = (q == q.max()).astype(float)
        return best / best.sum()
    coef = 1.0 if monotonic else 0.5
    w = np.exp(coef * eps / sensitivity * (q - q.max()))
    return w / w.sum()


CASES = [
    # name, q, eps, sensitivity, monotonic
    ("finite/plain",        [1.0, 5.0, 5.0, 2.0],            1.0,    1.0, False),
    ("finite/monotonic",    [1.0, 5.0, 5.0, 2.0],            1.0,    1.0, True),
    ("finite/sens2",        [10.0, 0.0, 7.5, 7.5, 3.0],      0.7,    2.0, False),
    ("finite/huge",         [1e6, 1e6 - 3.0, 2.5e5, 1e6],    0.25,   1.0, False),
    ("finite/shifted",      [1e6 + 1.0, 1e6 + 5.0, 1e6 + 5.0, 1e6 + 2.0], 1.0, 1.0, False),
    ("finite/negative",     [-4.0, -9.0, -4.0, -30.0],       2.0,    1.0, False),
    ("inf/unique-first",    [9.0, 5.0, 5.0, 2.0],            np.inf, 1.0, False),
    ("inf/unique-last",     [1.0, 5.0, 5.0, 12.0],           np.inf, 1.0, False),
    ("inf/unique-monotone", [1.0, 5.0, 5.0, 12.0],           np.inf, 1.0, True),
    ("inf/unique-sens4",    [1.0, 5.0, 0.0, -2.0],           np.inf, 4.0, False),
    ("inf/single",          [3.0],                           np.inf, 1.0, False),
    ("inf/tie-2",           [1.0, 5.0, 5.0, 2.0],            np.inf, 1.0, False),
    ("inf/tie-3-spread",    [3.0, 7.0, 7.0, 1.0, 7.0],       np.inf, 1.0, False),
    ("inf/tie-all",         [4.0, 4.0, 4.0, 4.0],            np.inf, 1.0, False),
    ("inf/tie-huge",        [1e6, 12.0, 1e6, 999999.0],      np.inf, 1.0, False),
    ("inf/tie-monotone",    [0.0, 0.0, -1.0],                np.inf, 2.0, True),
]

failures = []
digest_rows = []

for name, q, eps, sens, mono in CASES:
    rec = Recorder()
    ag.exponential_mechanism(np.array(q), eps, sens, prng=rec, monotonic=mono)
    if len(rec.calls) != 1 or rec.calls[0][1] is None:
        failures.append("%s: expected exactly one choice(n, p=...) call" % name)
        continue
    n, p = rec.calls[0]
    want = reference(q, eps, sens, mono)
    row = [round(float(x), 12) + 0.0 for x in p]
    digest_rows.append([name, n, row])
    if n != len(q) or p.shape != want.shape or not np.all(np.isfinite(p)):
        failures.append("%s: malformed p= vector %r" % (name, p))
    elif np.abs(p - want).max() > 1e-12:
        failures.append("%s: p=%s but the definition gives %s"
                        % (name, np.round(p, 6).tolist(), np.round(want, 6).tolist()))

# Behavioural cross-check with a real generator: which candidates can win at eps=inf?
q = np.array([3.0, 7.0, 7.0, 1.0, 7.0])
prng = np.random.RandomState(2024)
wins = np.bincount([ag.exponential_mechanism(q, np.inf, 1.0, prng=prng) for _ in range(600)],
                   minlength=q.size)
winners = np.flatnonzero(wins).tolist()
digest_rows.append(["winners", winners])
if winners != [1, 2, 4]:
    failures.append("600 noiseless draws over q=%s only ever returned %s; "
                    "the tied maximisers [1, 2, 4] must all be reachable" % (q.tolist(), winners))
elif wins[[1, 2, 4]].min() < 150:
    failures.append("noiseless draws are not uniform over the tied maximisers: counts %s" % wins.tolist())

if failures:
    print("FAIL: adaptive_grid.exponential_mechanism is not calibrated to the definition")
    for f in failures:
        print("  -", f)
    sys.exit(1)

blob = json.dumps(digest_rows, sort_keys=True).encode()
print("PASS %d cases" % len(CASES))
print("digest", hashlib.sha256(blob).hexdigest())
sys.exit(0)

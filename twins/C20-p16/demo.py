"""C20 / pair 2 - mst.measure: the scale handed to numpy.random.normal.

measure(data, cliques, sigma, weights) is the Gaussian-noise primitive of
mst.py.  It is given ONE scale `sigma` for the whole batch (the caller accounts
1/(2 sigma^2) zCDP for it) and relative weights w; marginal i must be drawn
with exactly scale sigma * ||w||_2 / w_i, which is also the scale it records
in the measurement log, so that sum_i 1/scale_i^2 == 1/sigma^2.

Exit 0 + PASS + digest when all of this holds, exit 1 + FAIL otherwise.
"""
import os, sys, json, hashlib, warnings

ROOT = os.path.dirname(os.path.dirname(os.path.dirname(os.path.abspath(__file__))))
sys.path.insert(0, ROOT)
sys.path.insert(0, os.path.join(ROOT, "src"))
warnings.simplefilter("ignore")

import numpy as np
import pandas as pd
import mbi
from mbi import Dataset, Domain
from mechanisms import mst

assert os.path.abspath(mst.__file__).startswith(ROOT), mst.__file__
assert os.path.abspath(mbi.__file__).startswith(ROOT), mbi.__file__

rs = np.random.RandomState(7)
SHAPE = {"a": 2, "b": 3, "c": 2, "d": 4, "e": 3}
df = pd.DataFrame({k: rs.randint(0, n, 60) for k, n in SHAPE.items()})
data = Dataset(df, Domain(list(SHAPE), list(SHAPE.values())))

ONE = [("a",)]
THREE = [("a",), ("b",), ("a", "c")]
FIVE = [("a",), ("b",), ("c",), ("d", "e"), ("b", "d")]

CASES = [
    # name, cliques, sigma, weights
    ("default/k=1",        ONE,   3.0,  None),
    ("default/k=3",        THREE, 2.0,  None),
    ("default/k=5",        FIVE,  0.75, None),
    ("equal/list-2s",      THREE, 2.0,  [2, 2, 2]),
    ("equal/array",        FIVE,  40.0, np.full(5, 0.1)),
    ("single/weight-7",    ONE,   3.0,  [7.0]),
    ("unequal/1-2-3",      THREE, 2.0,  [1, 2, 3]),
    ("unequal/tuple",      THREE, 2.0,  (1.0, 1.0, 4.0)),
    ("unequal/array-5",    FIVE,  1.5,  np.array([0.5, 0.5, 3.0, 3.0, 3.0])),
    ("unequal/tiny-share", FIVE,  10.0, [1e-3, 1.0, 1.0, 1.0, 1.0]),
]


def sig(x, digits=10):
    return float("%.*e" % (digits - 1, x))


real_normal = np.random.normal
failures, digest_rows = [], []

for idx, (name, cliques, sigma, weights) in enumerate(CASES):
    calls = []
    stream = np.random.RandomState(1000 + idx)

    def recording_normal(loc=0.0, scale=1.0, size=None):
        z = stream.standard_normal(size)
        calls.append((loc, float(scale), size, z))
        return loc + scale * z

    np.random.normal = recording_normal
    try:
        log = mst.measure(data, cliques, sigma, weights)
    finally:
        np.random.normal = real_normal

    w = np.ones(len(cliques)) if weights is None else np.array(weights, dtype=float)
    want = sigma * np.linalg.norm(w) / w
    if len(calls) != len(cliques) or len(log) != len(cliques):
        failures.append("%s: %d draws / %d log entries for %d cliques"
                        % (name, len(calls), len(log), len(cliques)))
        continue
    scales = np.array([c[1] for c in calls])
    logged = np.array([float(entry[2]) for entry in log])
    digest_rows.append([name, [sig(s) for s in scales], [sig(s) for s in logged]])

    for (loc, scale, size, z), (Q, y, s, proj), cl in zip(calls, log, cliques):
        x = data.project(cl).datavector()
        if loc != 0 or size != x.size or tuple(proj) != tuple(cl) or Q.shape != (x.size, x.size):
            failures.append("%s %s: malformed draw/log entry" % (name, cl))
        if np.abs((y - x) - scale * z).max() > 1e-9 * max(1.0, scale):
            failures.append("%s %s: y - x is not the recorded draw" % (name, cl))
    if np.any(scales != logged):
        failures.append("%s: logged scales %s differ from the drawn scales %s"
                        % (name, logged.tolist(), scales.tolist()))
    if np.abs(scales / want - 1).max() > 1e-12:
        failures.append("%s: drew with scales %s, the calibrated scales sigma*||w||/w_i are %s"
                        % (name, np.round(scales, 6).tolist(), np.round(want, 6).tolist()))
    spent = float(np.sum(1.0 / scales ** 2) * sigma ** 2)
    if abs(spent - 1) > 1e-12:
        failures.append("%s: the batch spends %.6f x the 1/(2 sigma^2) zCDP it was given"
                        % (name, spent))

if failures:
    print("FAIL: mst.measure does not draw with the scale it is given")
    for f in failures:
        print("  -", f)
    sys.exit(1)

blob = json.dumps(digest_rows, sort_keys=True).encode()
print("PASS %d cases" % len(CASES))
print("digest", hashlib.sha256(blob).hexdigest())
sys.exit(0)

"""C20 pair 1 - mechanisms/mst.py :: select : the candidate list handed to the
exponential mechanism in every round.

Definition checked: in every round the primitive must be called with exactly the
attribute pairs that are NOT yet connected (in the order of
itertools.combinations), and must pick pair i with probability proportional to
exp(eps * w_i / 2), eps = sqrt(8 rho / (r-1)), sensitivity 1.
"""
import os, sys, io, hashlib, itertools, contextlib, warnings
warnings.filterwarnings('ignore')
ROOT = os.path.dirname(os.path.dirname(os.path.dirname(os.path.abspath(__file__))))
sys.path[:0] = [os.path.join(ROOT, 'src'), ROOT]
if os.path.isdir('/tmp/stubs'):
    sys.path.append('/tmp/stubs')

import numpy as np
import pandas as pd
from scipy.special import logsumexp
from mbi import Dataset, Domain
import mechanisms.mst as mst

assert os.path.abspath(mst.__file__).startswith(ROOT), mst.__file__


class Uniform:
    """stand-in for the fitted model: uniform marginals with the right total"""
    def __init__(self, domain, total):
        self.domain, self.total = domain, total
    def project(self, attrs):
        n = self.domain.size(attrs)
        vec = np.ones(n) * self.total / n
        return type('F', (), {'datavector': staticmethod(lambda: vec)})()


class FakeEngine:
    total = None
    def __init__(self, domain, iters=None, **kw):
        self.domain = domain
    def estimate(self, log, *a, **kw):
        return Uniform(self.domain, FakeEngine.total)


mst.FactoredInference = FakeEngine


def make_data(sizes, n, seed):
    rs = np.random.RandomState(seed)
    attrs = list('ABCDEFGH')[:len(sizes)]
    cols = {}
    base = rs.randint(0, 2, n)
    for a, s in zip(attrs, sizes):
        noise = rs.randint(0, s, n)
        cols[a] = np.where(rs.rand(n) < 0.15 * (1 + attrs.index(a)), base % s, noise)
    return Dataset(pd.DataFrame(cols), Domain(attrs, sizes))


class Reference:
    """independent re-statement of what each round must look like"""
    def __init__(self, data, rho, cliques):
        self.attrs = list(data.domain.attrs)
        self.comp = {a: a for a in self.attrs}
        for a, b in cliques:
            self.union(a, b)
        r = len(set(self.find(a) for a in self.attrs))
        self.eps = np.sqrt(8 * rho / (r - 1))
        self.rounds = r - 1
        total = data.records
        self.w = {}
        for a, b in itertools.combinations(self.attrs, 2):
            x = data.project([a, b]).datavector()
            self.w[a, b] = np.abs(x - total / x.size).sum()
    def find(self, a):
        while self.comp[a] != a:
            a = self.comp[a]
        return a
    def union(self, a, b):
        self.comp[self.find(a)] = self.find(b)
    def candidates(self):
        return [e for e in itertools.combinations(self.attrs, 2)
                if self.find(e[0]) != self.find(e[1])]
    def probabilities(self, cands):
        s = 0.5 * self.eps * np.array([self.w[e] for e in cands])
        return np.exp(s - logsumexp(s))


def run(name, data, rho, cliques, script, seed):
    """run mst.select once; `script` is a list of edges to force (then random)"""
    FakeEngine.total = data.records
    ref = Reference(data, rho, cliques)
    script = list(script)
    problems, trace = [], []
    real_choice = np.random.choice
    np.random.seed(seed)

    def choice(n, p=None, **kw):
        rnd = len(trace) + 1
        cands = ref.candidates()
        want = ref.probabilities(cands)
        p = np.asarray(p, dtype=float)
        if n != len(cands) or p.shape != want.shape:
            problems.append('round %d: the primitive was offered %d candidates, but %d pairs '
                            'are still unconnected (%s)' % (rnd, n, len(cands), cands))
        elif not np.allclose(p, want, rtol=1e-10, atol=1e-15):
            problems.append('round %d: p deviates from exp(eps*w/2)/Z by %.3g'
                            % (rnd, np.abs(p - want).max()))
        if script:
            idx = cands.index(script.pop(0))
        else:
            idx = int(real_choice(n, p=p))
        edge = cands[idx] if idx < len(cands) else None
        trace.append((len(cands), np.round(want, 12).tolist(), edge))
        if edge is not None:
            ref.union(*edge)
        return idx

    np.random.choice = choice
    try:
        with contextlib.redirect_stdout(io.StringIO()):
            tree = mst.select(data, rho, [], cliques=list(cliques))
    except Exception as exc:
        problems.append('select raised %r' % (exc,))
        tree = []
    finally:
        np.random.choice = real_choice
    if len(trace) != ref.rounds:
        problems.append('%d selection rounds, expected %d' % (len(trace), ref.rounds))
    picked = [t[2] for t in trace]
    want_tree = sorted(tuple(sorted(e)) for e in list(cliques) + picked if e)
    if sorted(tuple(sorted(e)) for e in tree) != want_tree:
        problems.append('returned edges %s != chosen edges %s' % (sorted(tree), want_tree))
    h = hashlib.sha256(repr((name, trace, want_tree)).encode()).hexdigest()[:16]
    print('%-34s rounds=%d sizes=%s picked=%s digest=%s' % (
        name, len(trace), [t[0] for t in trace], picked, h))
    return problems


def main():
    d6 = make_data([2, 3, 2, 3, 2, 2], 300, 1)
    d5 = make_data([3, 2, 2, 3, 2], 250, 2)
    d4 = make_data([2, 2, 3, 2], 200, 3)
    d7 = make_data([2, 2, 2, 3, 2, 2, 3], 400, 4)
    cases = [
        ('4 attrs, random', d4, 0.05, [], [], 10),
        ('5 attrs, chain A-B-C-D-E forced', d5, 0.02, [],
            [('A', 'B'), ('B', 'C'), ('C', 'D'), ('D', 'E')], 11),
        ('5 attrs, random', d5, 0.03, [], [], 12),
        ('6 attrs, star forced', d6, 0.02, [],
            [('A', 'B'), ('A', 'C'), ('A', 'D'), ('A', 'E'), ('A', 'F')], 13),
        # two components of two attributes each are joined by a third edge
        ('5 attrs, AB + CD then AC', d5, 0.02, [],
            [('A', 'B'), ('C', 'D'), ('A', 'C')], 14),
        ('6 attrs, AB + CD then BC', d6, 0.01, [],
            [('A', 'B'), ('C', 'D'), ('B', 'C')], 15),
        ('6 attrs, given AB, CD; then AD', d6, 0.01, [('A', 'B'), ('C', 'D')],
            [('A', 'D')], 16),
        ('7 attrs, given AB, BC; random', d7, 0.04, [('A', 'B'), ('B', 'C')], [], 17),
        ('7 attrs, random, large rho', d7, 50.0, [], [], 18),
        ('7 attrs, random', d7, 0.005, [], [], 19),
        ('6 attrs, random', d6, 0.02, [], [], 20),
    ]
    failures = []
    for name, data, rho, cliques, script, seed in cases:
        for msg in run(name, data, rho, cliques, script, seed):
            failures.append('%s: %s' % (name, msg))
    if failures:
        print('FAIL: mst.select does not sample from the exponential mechanism over the '
              'unconnected pairs')
        for f in failures:
            print('  -', f)
        sys.exit(1)
    print('PASS')


if __name__ == '__main__':
    main()

"""C20 pair 2 - mechanisms/mechanism.py :: Mechanism.gaussian_noise_scale (and its
user best_noise_distribution): the scale helpers must return

    laplace : (2 if bounded else 1) * l1_sensitivity / epsilon
    gaussian: (2 if bounded else 1) * l2_sensitivity * sigma_1(epsilon, delta)

for EVERY call, whatever was asked of the same Mechanism object before, and the
samplers must draw with exactly the scale they are handed.
"""
import os, sys, hashlib, warnings
warnings.filterwarnings('ignore')
ROOT = os.path.dirname(os.path.dirname(os.path.dirname(os.path.abspath(__file__))))
sys.path[:0] = [os.path.join(ROOT, 'src'), ROOT]
if os.path.isdir('/tmp/stubs'):
    sys.path.append('/tmp/stubs')

import numpy as np
import mechanisms.mechanism as mm

assert os.path.abspath(mm.__file__).startswith(ROOT), mm.__file__

CALLS = []


def unit_sigma(eps, delta):
    """deterministic stand-in for autodp's analytic Gaussian calibration"""
    CALLS.append((eps, delta))
    return {'sigma': float(np.sqrt(2 * np.log(1.25 / delta)) / eps)}


mm.privacy_calibrator.ana_gaussian_mech = unit_sigma


def sigma1(eps, delta):
    return float(np.sqrt(2 * np.log(1.25 / delta)) / eps)


class Recorder:
    """prng that records the scale it is asked to draw with"""
    def __init__(self):
        self.log = []
        self.rs = np.random.RandomState(0)
    def normal(self, loc, scale, size=None):
        self.log.append(('normal', float(loc), float(scale), size))
        return self.rs.normal(loc, scale, size)
    def laplace(self, loc, scale, size=None):
        self.log.append(('laplace', float(loc), float(scale), size))
        return self.rs.laplace(loc, scale, size)


failures, digest = [], []


def check(label, got, want):
    digest.append((label, '%.12g' % got))
    if not np.isclose(got, want, rtol=1e-12, atol=0):
        failures.append('%s: returned %.10g, definition gives %.10g (ratio %.6g)'
                        % (label, got, want, got / want))


def scale_sequences():
    seqs = {
        'same sensitivity': [(1.0, 1.0, 1e-6), (1.0, 1.0, 1e-6), (1.0, 0.5, 1e-6), (1.0, 1.0, 1e-9)],
        'sensitivity grows': [(1.0, 1.0, 1e-6), (3.0, 1.0, 1e-6), (np.sqrt(2), 1.0, 1e-6)],
        'sensitivity shrinks': [(4.0, 0.3, 1e-9), (1.0, 0.3, 1e-9), (4.0, 0.3, 1e-9)],
        'interleaved budgets': [(2.0, 1.0, 1e-6), (1.0, 2.0, 1e-6), (5.0, 1.0, 1e-6),
                                (1.0, 2.0, 1e-9), (0.25, 2.0, 1e-6)],
        'integers and numpy scalars': [(1, 1, 1e-6), (np.float64(2.0), np.float64(1.0), 1e-6),
                                       (7, 1.0, 1e-6)],
    }
    for bounded in (False, True):
        adj = 2.0 if bounded else 1.0
        for name, seq in seqs.items():
            mech = mm.Mechanism(1.0, 1e-6, bounded)
            for k, (l2, eps, delta) in enumerate(seq):
                got = mech.gaussian_noise_scale(l2, eps, delta)
                check('gaussian bounded=%s [%s] call %d (l2=%.4g eps=%g delta=%g)'
                      % (bounded, name, k + 1, l2, eps, delta),
                      got, adj * l2 * sigma1(eps, delta))
                lap = mech.laplace_noise_scale(l2, eps)
                check('laplace bounded=%s [%s] call %d' % (bounded, name, k + 1),
                      lap, adj * l2 / eps)


def adjacency_flip():
    mech = mm.Mechanism(1.0, 1e-6, False)
    for k, bounded in enumerate([False, True, False, True]):
        mech.bounded = bounded
        got = mech.gaussian_noise_scale(1.5, 0.7, 1e-7)
        check('gaussian after setting bounded=%s (step %d)' % (bounded, k + 1),
              got, (2.0 if bounded else 1.0) * 1.5 * sigma1(0.7, 1e-7))


def samplers():
    for bounded in (False, True):
        adj = 2.0 if bounded else 1.0
        rec = Recorder()
        mech = mm.Mechanism(1.0, 1e-6, bounded, prng=rec)
        plan = [(1.0, 1.0, 1.0, 1e-6), (30.0, 2.0, 1.0, 1e-6), (1.0, 1.0, 1.0, 1e-6),
                (400.0, 20.0, 1.0, 1e-6), (1.0, 6.0, 1.0, 1e-6)]
        for k, (l1, l2, eps, delta) in enumerate(plan):
            draw = mech.best_noise_distribution(l1, l2, eps, delta)
            draw(5)
            kind, loc, scale, size = rec.log[-1]
            b, s = adj * l1 / eps, adj * l2 * sigma1(eps, delta)
            want_kind, want = ('laplace', b) if np.sqrt(2) * b < s else ('normal', s)
            digest.append(('sampler', bounded, k, kind, size))
            if kind != want_kind or loc != 0.0:
                failures.append('best_noise_distribution bounded=%s step %d drew %s noise, '
                                'expected %s' % (bounded, k + 1, kind, want_kind))
            check('best_noise_distribution bounded=%s step %d (l1=%g l2=%g): %s scale'
                  % (bounded, k + 1, l1, l2, kind), scale, want)
        mech.gaussian_noise(0.125, 3); mech.laplace_noise(8.5, 2)
        check('gaussian_noise scale', rec.log[-2][2], 0.125)
        check('laplace_noise scale', rec.log[-1][2], 8.5)


scale_sequences()
adjacency_flip()
samplers()
h = hashlib.sha256(repr(digest).encode()).hexdigest()
print('checked %d values, digest %s' % (len(digest), h[:32]))
if failures:
    print('FAIL: a noise-scale helper returned something else than sensitivity x unit scale')
    for f in failures:
        print('  -', f)
    sys.exit(1)
print('PASS')

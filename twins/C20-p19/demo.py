"""C20 pair 1 - Mechanism.exponential_mechanism: fast path for all-tied qualities.

Checks, with a scripted prng that records the p= vector handed to choice(),
that Mechanism.exponential_mechanism / generalized_exponential_mechanism pick
candidate i with probability proportional to
    base_measure_i * exp(eps * quality_i / (2 * sensitivity))
for arrays and dicts, with ties, after shifting all qualities by a constant and
for qualities of magnitude 1e6, and that the index drawn is mapped to the right
candidate.  Also spot-checks the noise-scale helpers and samplers.
"""
import os, sys, hashlib, warnings

ROOT = os.path.dirname(os.path.dirname(os.path.dirname(os.path.abspath(__file__))))
sys.path.insert(0, ROOT)
sys.path.insert(0, os.path.join(ROOT, 'src'))
if os.path.isdir('/tmp/stubs'):
    sys.path.append('/tmp/stubs')
warnings.filterwarnings('ignore')

import numpy as np
import mechanisms.mechanism as M

assert os.path.abspath(M.__file__).startswith(ROOT), M.__file__


class ScriptedPrng:
    """Records every call; choice() returns a scripted index."""
    def __init__(self):
        self.calls = []
        self.next_index = 0
    def choice(self, n, p=None, **kw):
        self.calls.append(('choice', n, None if p is None else np.array(p, dtype=float)))
        return self.next_index
    def normal(self, loc, scale, size=None):
        self.calls.append(('normal', loc, scale, size))
        return np.zeros(size)
    def laplace(self, loc, scale, size=None):
        self.calls.append(('laplace', loc, scale, size))
        return np.zeros(size)


def definition(q, eps, sens, weights=None):
    """ p_i  proportional to  w_i * exp(eps*q_i/(2*sens)), computed in log space """
    q = np.asarray(q, dtype=float)
    logit = eps * (q - q.max()) / (2.0 * sens)
    if weights is not None:
        with np.errstate(divide='ignore'):
            logit = logit + np.log(np.asarray(weights, dtype=float))
    logit = logit - logit.max()
    w = np.exp(logit)
    return w / w.sum()


failures = []
digest_lines = []

def record(name, p):
    digest_lines.append(name + ' ' + ' '.join('%.12e' % v for v in p))

def check(name, got, want):
    got = np.asarray(got, dtype=float)
    if got.shape != want.shape or not np.all(np.isfinite(got)) \
            or not np.allclose(got, want, rtol=1e-9, atol=1e-300):
        failures.append('%s: selection probabilities %s differ from the definition %s'
                        % (name, np.array2string(got, precision=6), np.array2string(want, precision=6)))
    record(name, got)


def run_em(name, qualities, eps, sens, base_measure=None, weights=None, keys=None):
    """ weights = the (unlogged) base measure in candidate order, for the oracle """
    prng = ScriptedPrng()
    mech = M.Mechanism(1.0, 1e-6, False, prng=prng)
    n = len(qualities)
    qv = [qualities[k] for k in keys] if isinstance(qualities, dict) else list(qualities)
    want = definition(qv, eps, sens, weights)
    for idx in sorted({0, n // 2, n - 1}):
        prng.calls.clear(); prng.next_index = idx
        out = mech.exponential_mechanism(qualities, eps, sens, base_measure=base_measure)
        choice_calls = [c for c in prng.calls if c[0] == 'choice']
        if len(choice_calls) != 1 or choice_calls[0][2] is None:
            failures.append('%s: expected exactly one choice(n, p=...) call' % name); return
        expect_key = keys[idx] if keys is not None else idx
        if not (out == expect_key):
            failures.append('%s: index %d was mapped to candidate %r, expected %r' % (name, idx, out, expect_key))
    check(name, choice_calls[0][2], want)


rng = np.random.RandomState(20)

# 1. arrays, no base measure: generic, ties, shift by a constant, huge magnitude
q = rng.uniform(-5, 5, 7)
run_em('array/generic', q, 0.8, 1.0)
run_em('array/shifted+1e6', q + 1e6, 0.8, 1.0)
run_em('array/sens3', q, 2.5, 3.0)
run_em('array/int-ties', np.array([4, 9, 9, 1, 9]), 1.3, 2.0)
run_em('array/all-tied', np.full(5, 3.25), 1.3, 2.0)
run_em('array/all-tied-1e6', [1e6] * 4, 5.0, 1.0)
run_em('array/single', np.array([-2.0]), 1.0, 1.0)
run_em('array/huge', np.array([1e6, -1e6, 1e6 - 3.0, 0.0]), 1.0, 1.0)

# 2. arrays with a (log) base measure, as the generalized EM passes it
w = np.array([0.5, 2.0, 1.0, 4.0, 0.25, 1.0, 3.0])
run_em('array+measure/generic', q, 0.8, 1.0, base_measure=np.log(w), weights=w)
run_em('array+measure/partial-ties', np.array([2.0, 2.0, -1.0, 2.0]), 1.1, 1.0,
       base_measure=np.log([1.0, 3.0, 5.0, 0.5]), weights=[1.0, 3.0, 5.0, 0.5])
run_em('array+measure/all-tied', np.full(4, 7.0), 1.1, 1.0,
       base_measure=np.log([1.0, 3.0, 5.0, 0.5]), weights=[1.0, 3.0, 5.0, 0.5])
run_em('array+measure/all-tied-1e6', np.full(3, -1e6), 2.0, 1.0,
       base_measure=np.log([6.0, 1.0, 1.0]), weights=[6.0, 1.0, 1.0])
run_em('array+measure/single', np.array([5.0]), 1.0, 1.0, base_measure=np.log([0.3]), weights=[0.3])

# 3. dicts (clique keys), base measure given as a dict of weights in another order
keys = [('a', 'b'), ('a', 'c'), ('b', 'c'), ('c',)]
qd = dict(zip(keys, [3.0, -1.5, 3.0, 0.25]))
bm = {('c',): 2.0, ('b', 'c'): 0.5, ('a', 'b'): 1.5, ('a', 'c'): 4.0}
run_em('dict/generic', qd, 0.9, 1.0, keys=keys)
run_em('dict+measure/generic', qd, 0.9, 1.0, base_measure=bm, weights=[bm[k] for k in keys], keys=keys)
tied = dict.fromkeys(keys, 0.0)      # e.g. all candidate weights are zero, as in AIM
run_em('dict/all-tied', tied, 0.9, 1.0, keys=keys)
run_em('dict+measure/all-tied', tied, 0.9, 1.0, base_measure=bm, weights=[bm[k] for k in keys], keys=keys)
bm0 = dict(bm); bm0[('a', 'c')] = 0.0  # a candidate excluded by the base measure
run_em('dict+measure/all-tied-zero-weight', dict.fromkeys(keys, 1e6), 0.9, 1.0, base_measure=bm0,
       weights=[bm0[k] for k in keys], keys=keys)


# 4. generalized exponential mechanism: final selection over its scores (sensitivity 1)
def run_gem(name, qualities, sens, eps, base_measure=None, weights=None, keys=None):
    prng = ScriptedPrng()
    mech = M.Mechanism(1.0, 1e-6, False, prng=prng)
    if isinstance(qualities, dict):
        qv = np.array([qualities[k] for k in keys], dtype=float)
        sv = np.array([sens[k] for k in keys], dtype=float)
    else:
        qv, sv = np.array(qualities, dtype=float), np.array(sens, dtype=float)
    t = 2 * np.log(len(qv) / 0.5) / eps
    scores = M.generalized_em_scores(qv, sv, t)
    want = definition(scores, eps, 1.0, weights)
    prng.next_index = len(qv) - 1
    out = mech.generalized_exponential_mechanism(qualities, sens, eps, base_measure=base_measure)
    expect_key = keys[-1] if keys is not None else len(qv) - 1
    if not (out == expect_key):
        failures.append('%s: wrong candidate returned: %r' % (name, out))
    check(name, prng.calls[-1][2], want)

run_gem('gem/array', np.array([5.0, 1.0, 3.0, 4.0]), np.array([1.0, 2.0, 0.5, 1.0]), 1.2)
run_gem('gem/dict+measure', qd, dict(zip(keys, [1.0, 2.0, 0.5, 1.0])), 1.2,
        base_measure=bm, weights=[bm[k] for k in keys], keys=keys)
run_gem('gem/dict+measure/equal-candidates', dict.fromkeys(keys, 12.0), dict.fromkeys(keys, 2.0), 1.2,
        base_measure=bm, weights=[bm[k] for k in keys], keys=keys)

# 5. noise-scale helpers and samplers
for bounded in (False, True):
    prng = ScriptedPrng()
    mech = M.Mechanism(1.0, 1e-6, bounded, prng=prng)
    b = mech.laplace_noise_scale(3.0, 0.5)
    if b != (2 if bounded else 1) * 3.0 / 0.5:
        failures.append('laplace_noise_scale(bounded=%s) = %r' % (bounded, b))
    mech.laplace_noise(b, 4); mech.gaussian_noise(1.75, 3)
    if prng.calls[-2][:3] != ('laplace', 0, b) or prng.calls[-1][:3] != ('normal', 0, 1.75):
        failures.append('samplers did not draw with the scale they were given: %r' % (prng.calls[-2:],))
    digest_lines.append('scales bounded=%s %r' % (bounded, b))

print('\n'.join(digest_lines))
print('digest', hashlib.sha256('\n'.join(digest_lines).encode()).hexdigest())
if failures:
    print('FAIL: selection is not proportional to base measure * exp(eps*q/(2*sens)):')
    for f in failures:
        print('  -', f)
    sys.exit(1)
print('PASS')

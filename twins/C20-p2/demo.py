"""
C20 / pair 2 -- mechanisms/mechanism.py :: Mechanism.generalized_exponential_mechanism

Clause exercised: the generalized exponential mechanism picks candidate i with
probability proportional to  base_measure_i * exp(eps * s_i / 2)  where s_i is the
generalized score of candidate i FOR THE SLACK t THE CALLER CONFIGURED
(s_i = - max_j ((q_j - t*d_j) - (q_i - t*d_i)) / (d_i + d_j)); only when the caller
leaves t unset (None) is the default t = 2*log(n/0.5)/eps substituted.  Array and
dict inputs, ties, magnitudes up to 1e6, with and without a base measure.

The demo records the p= argument handed to prng.choice() and compares it with the
definition, evaluated independently (brute force over all pairs, extended precision).
exit 0 + "PASS" + digest  : calibrated for all cases
exit 1 + "FAIL" + details : some configuration is sampled from the wrong distribution
"""
import os
import sys
import hashlib
import itertools
import warnings

warnings.filterwarnings('ignore')

ROOT = os.path.dirname(os.path.dirname(os.path.dirname(os.path.dirname(os.path.abspath(__file__)))))
for extra in ['/tmp/stubs']:            # minimal autodp stub (only needed to import mechanism.py)
    if os.path.isdir(extra) and extra not in sys.path:
        sys.path.append(extra)
sys.path.insert(0, ROOT)
sys.path.insert(0, os.path.join(ROOT, 'src'))

import numpy as np
import mechanisms.mechanism as mechanism
from mechanisms.mechanism import Mechanism

assert os.path.abspath(mechanism.__file__).startswith(ROOT), mechanism.__file__


class RecordingPrng:
    """ stands in for np.random: remembers the p= of every choice() call """
    def __init__(self, seed):
        self.state = np.random.RandomState(seed)
        self.calls = []

    def choice(self, a, p=None, **kw):
        self.calls.append((a, None if p is None else np.array(p, dtype=float)))
        return self.state.choice(a, p=p, **kw)


def reference(q, ds, eps, t, base=None):
    """ the definition: brute force over ALL pairs, softmax in extended precision """
    q = np.asarray(q, dtype=float)
    ds = np.asarray(ds, dtype=float)
    n = q.size
    if t is None:
        t = 2 * np.log(n / 0.5) / eps
    s = np.empty(n)
    for i in range(n):
        s[i] = max(((-q[i] + t * ds[i]) - (-q[j] + t * ds[j])) / (ds[i] + ds[j]) for j in range(n))
    score = np.asarray(-s, dtype=np.longdouble)
    logit = np.longdouble(eps) / 2 * (score - score.max())
    if base is not None:
        logit = logit + np.log(np.asarray(base, dtype=np.longdouble))
    w = np.exp(logit - logit.max())
    return np.asarray(w / w.sum(), dtype=float)


CANDIDATES = [
    # name, qualities, sensitivities
    ('uniform-sens', [3.0, 1.0, 4.0, 1.5, 9.0], [1.0, 1.0, 1.0, 1.0, 1.0]),
    ('mixed-sens', [3.0, 1.0, 4.0, 1.5, 9.0, 2.5], [1.0, 0.5, 2.0, 0.25, 4.0, 1.0]),
    ('ties', [7.0, 7.0, 2.0, 7.0, 2.0], [1.0, 3.0, 1.0, 1.0, 0.5]),
    ('aim-like', [812.0, 640.0, 655.5, 790.25, 12.0, 300.0], [1.0, 2.0, 2.0, 3.0, 1.0, 6.0]),
    ('huge', [1e6, 1e6 - 3.0, 9.99e5, -1e6, 1e6 - 40.0], [1.0, 2.0, 1.0, 5.0, 10.0]),
]
SLACKS = [None, 0, 0.0, 0.25, 1.0, 5.0]
EPSILONS = [0.5, 1.0, 3.0]
KEYS = [('a',), ('a', 'b'), ('b', 'c'), ('c',), ('a', 'c', 'd'), ('d',)]
BASE = [1.0, 2.0, 0.5, 3.0, 1.0, 4.0]

TOL = 1e-9
failures = []
digest = hashlib.sha256()
ncases = 0


def check(label, mech, prng, chosen, keyspace, ref):
    global ncases
    ncases += 1
    assert len(prng.calls) == 1, len(prng.calls)
    n, p = prng.calls[0]
    err = float(np.abs(p - ref).max())
    digest.update(p.tobytes())
    digest.update(repr(chosen).encode())
    if chosen not in keyspace:
        failures.append('%s: returned %r which is not a candidate' % (label, chosen))
    if not (n == len(ref) and err <= TOL):
        failures.append('%s  max|p - definition| = %.3e\n      p          = %s\n      definition = %s'
                        % (label, err, np.round(p, 6), np.round(ref, 6)))


for (name, q, ds), t, eps in itertools.product(CANDIDATES, SLACKS, EPSILONS):
    n = len(q)
    label = 'q=%-12s t=%-5r eps=%.1f' % (name, t, eps)

    # array input, t passed by keyword
    prng = RecordingPrng(3)
    mech = Mechanism(1.0, 1e-6, False, prng=prng)
    kw = {} if t is None else {'t': t}
    out = mech.generalized_exponential_mechanism(np.array(q), np.array(ds), eps, **kw)
    check(label + ' [array]', mech, prng, int(out), list(range(n)), reference(q, ds, eps, t))

    # dict input
    keys = KEYS[:n]
    prng = RecordingPrng(4)
    mech = Mechanism(1.0, 1e-6, False, prng=prng)
    out = mech.generalized_exponential_mechanism(dict(zip(keys, q)), dict(zip(keys, ds)), eps, t=t)
    check(label + ' [dict]', mech, prng, out, keys, reference(q, ds, eps, t))

    # dict input with a base measure
    base = BASE[:n]
    prng = RecordingPrng(5)
    mech = Mechanism(1.0, 1e-6, True, prng=prng)
    out = mech.generalized_exponential_mechanism(dict(zip(keys, q)), dict(zip(keys, ds)), eps, t=t,
                                                 base_measure=dict(zip(keys, base)))
    check(label + ' [dict+base]', mech, prng, out, keys, reference(q, ds, eps, t, base))

# the plain exponential mechanism on the same inputs (untouched by the change, part of the digest)
for (name, q, ds), eps, sens in itertools.product(CANDIDATES, EPSILONS, [1.0, 2.0]):
    prng = RecordingPrng(6)
    mech = Mechanism(1.0, 1e-6, False, prng=prng)
    mech.exponential_mechanism(np.array(q), eps, sens)
    n, p = prng.calls[0]
    qq = np.asarray(q, dtype=np.longdouble)
    w = np.exp(np.longdouble(eps) / (2 * np.longdouble(sens)) * (qq - qq.max()))
    ref = np.asarray(w / w.sum(), dtype=float)
    ncases += 1
    digest.update(p.tobytes())
    if float(np.abs(p - ref).max()) > TOL:
        failures.append('exponential_mechanism q=%s eps=%.1f sensitivity=%.1f' % (name, eps, sens))

if failures:
    print('FAIL: generalized_exponential_mechanism does not sample from base*exp(eps*score(t)/2) in %d case(s)' % len(failures))
    for f in failures[:8]:
        print('  -', f)
    if len(failures) > 8:
        print('  ... and %d more' % (len(failures) - 8))
    sys.exit(1)

print('PASS')
print('cases: %d' % ncases)
print('digest', digest.hexdigest())
sys.exit(0)

"""C20 pair 1 - the noise samplers of mechanisms/mechanism.py draw iid noise of
the requested SIZE with exactly the SCALE they are given (Gaussian and Laplace),
directly and through best_noise_distribution."""
import os, sys, hashlib
ROOT = os.path.dirname(os.path.dirname(os.path.dirname(os.path.abspath(__file__))))
sys.path[:0] = [os.path.join(ROOT, 'src'), ROOT, '/tmp/stubs']
import numpy as np
from mechanisms.mechanism import Mechanism

fails, digest = [], hashlib.sha256()

def check(name, x, size, kind, scale, stat=True):
    want = (size,) if isinstance(size, int) else tuple(size)
    shape = np.shape(x)
    if shape != want:
        fails.append('%s: asked for %s iid draws, got shape %s' % (name, want, shape))
        return
    x = np.asarray(x, dtype=float)
    digest.update(name.encode()); digest.update(np.ascontiguousarray(x).tobytes())
    if not stat: return
    n = x.size
    # E|X| = b for Laplace(b);  E|X| = sigma*sqrt(2/pi) for N(0,sigma^2)
    mad = np.abs(x).mean() / scale
    target = 1.0 if kind == 'laplace' else np.sqrt(2/np.pi)
    kurt = ((x/scale)**4).mean()           # 24 for Laplace(1), 3 for N(0,1)
    ktarget = 24.0 if kind == 'laplace' else 3.0
    if abs(mad - target) > 0.02*target:
        fails.append('%s: E|X|/scale = %.4f, expected %.4f' % (name, mad, target))
    if abs(x.mean())/scale > 6/np.sqrt(n)*2:
        fails.append('%s: mean/scale = %.4f, expected 0' % (name, x.mean()/scale))
    if abs(kurt - ktarget) > 0.15*ktarget:
        fails.append('%s: 4th moment %.2f, expected %.1f (%s)' % (name, kurt, ktarget, kind))

N = 200000
for pname, make in [('RandomState', lambda s: np.random.RandomState(s)),
                    ('Generator', lambda s: np.random.default_rng(s))]:
    for bounded in [False, True]:
        for scale in [1.0, 0.37, 25.0, 1e-3, 4e5]:
            M = Mechanism(1.0, 1e-6, bounded, prng=make(12345))
            check('%s/gauss/%g' % (pname, scale), M.gaussian_noise(scale, N), N, 'gauss', scale)
            check('%s/laplace/%g' % (pname, scale), M.laplace_noise(scale, N), N, 'laplace', scale)
            check('%s/gauss2d/%g' % (pname, scale), M.gaussian_noise(scale, (400, 500)), (400, 500), 'gauss', scale)
            check('%s/laplace2d/%g' % (pname, scale), M.laplace_noise(scale, (400, 500)), (400, 500), 'laplace', scale)
            for size in [1, 7, (3, 5)]:
                check('%s/gauss-small/%g/%s' % (pname, scale, size), M.gaussian_noise(scale, size), size, 'gauss', scale, stat=False)
                check('%s/laplace-small/%g/%s' % (pname, scale, size), M.laplace_noise(scale, size), size, 'laplace', scale, stat=False)

# default prng (the numpy.random module), as AIM uses it
np.random.seed(2024)
M = Mechanism(1.0, 1e-6, False)
check('module/gauss', M.gaussian_noise(3.0, N), N, 'gauss', 3.0)
check('module/laplace', M.laplace_noise(3.0, N), N, 'laplace', 3.0)

# through best_noise_distribution: (stub calibrator: sigma = l2 sensitivity)
for bounded in [False, True]:
    k = 2.0 if bounded else 1.0
    for l1, l2, eps, kind in [(1.0, 1.0, 4.0, 'laplace'),    # sqrt2*b < sigma -> Laplace(b)
                              (1.0, 1.0, 0.5, 'gauss'),      # -> Gaussian(sigma)
                              (3.0, 9.0, 1.0, 'laplace'),
                              (5.0, 2.0, 1.0, 'gauss')]:
        M = Mechanism(eps, 1e-6, bounded, prng=np.random.RandomState(99))
        b = M.laplace_noise_scale(l1, eps); sigma = M.gaussian_noise_scale(l2, eps, 1e-6)
        if b != k*l1/eps: fails.append('laplace_noise_scale(%g,%g) = %r' % (l1, eps, b))
        if sigma != k*l2: fails.append('gaussian_noise_scale = %r' % sigma)
        sampler = M.best_noise_distribution(l1, l2, eps, 1e-6)
        scale = b if kind == 'laplace' else sigma
        check('best/%s/%s/%g/%g/%g' % (bounded, kind, l1, l2, eps), sampler(N), N, kind, scale)
        x = np.arange(12.0)
        y = x + sampler(x.size)          # how mechanisms use it: one draw per cell
        check('best-cells/%s/%s/%g' % (bounded, kind, eps), y - x, 12, kind, scale, stat=False)
        if np.shape(y) == (12,) and len(set(np.round(y - x, 12))) < 12:
            fails.append('best-cells: cells share the same noise value')

if fails:
    print('FAIL: a noise sampler does not return iid noise of the requested size with the scale it was given')
    for f in fails[:12]: print('  -', f)
    print('  (%d violations in total)' % len(fails))
    sys.exit(1)
print('PASS')
print('digest', digest.hexdigest())

"""C20 demo: MWEM+PGM hands its noise samplers the scale that matches the
declared adjacency (Laplace: L1 sensitivity / eps, doubled under bounded DP;
Gaussian: L2 sensitivity * sigma(rho), sqrt(2) under bounded DP)."""
import os, sys, importlib.util, hashlib, io, contextlib
ROOT = os.path.dirname(os.path.dirname(os.path.dirname(os.path.abspath(__file__))))
sys.path.insert(0, ROOT)
sys.path.insert(0, os.path.join(ROOT, 'src'))
import numpy as np
import pandas as pd
from mbi import Dataset, Domain, GraphicalModel
from mechanisms.cdp2adp import cdp_rho

spec = importlib.util.spec_from_file_location('mwem_pgm_mod', os.path.join(ROOT, 'mechanisms', 'mwem+pgm.py'))
mod = importlib.util.module_from_spec(spec)
spec.loader.exec_module(mod)

GraphicalModel.synthetic_data = lambda self, *a, **k: None   # pandas-3 crash avoided

calls = []
_lap, _nor = np.random.laplace, np.random.normal
def rec_laplace(loc=0.0, scale=1.0, size=None):
    calls.append(('laplace', float(scale)))
    return _lap(loc, scale, size)
def rec_normal(loc=0.0, scale=1.0, size=None):
    calls.append(('normal', float(scale)))
    return _nor(loc, scale, size)
np.random.laplace, np.random.normal = rec_laplace, rec_normal

def make_data(seed):
    rng = np.random.RandomState(seed)
    dom = Domain(['a', 'b', 'c'], [2, 3, 2])
    df = pd.DataFrame({c: rng.randint(0, n, 60) for c, n in zip(dom.attrs, dom.shape)})
    return Dataset(df, dom)

def expected(noise, bounded, eps, delta, rounds, alpha):
    if noise == 'laplace':
        l1 = 2.0 if bounded else 1.0          # replace-one moves two cells by one
        return l1 / (alpha * eps / rounds)
    rho = cdp_rho(eps, delta) / rounds
    l2 = np.sqrt(2) if bounded else 1.0
    return l2 * np.sqrt(0.5 / (alpha * rho))

lines, bad = [], []
configs = [(noise, bounded, eps, rounds, alpha)
           for noise in ('gaussian', 'laplace') for bounded in (False, True)
           for eps, rounds, alpha in ((1.0, 2, 0.9), (0.25, 3, 0.5))]
for k, (noise, bounded, eps, rounds, alpha) in enumerate(configs):
    np.random.seed(100 + k)
    del calls[:]
    with contextlib.redirect_stdout(io.StringIO()):
        mod.mwem_pgm(make_data(k), eps, 1e-6, rounds=rounds, pgm_iters=30,
                     noise=noise, bounded=bounded, alpha=alpha)
    want = expected(noise, bounded, eps, 1e-6, rounds, alpha)
    kind = 'laplace' if noise == 'laplace' else 'normal'
    got = [s for (kd, s) in calls if kd == kind]
    other = [c for c in calls if c[0] != kind]
    ok = len(got) == rounds and not other and all(abs(s - want) <= 1e-12 * want for s in got)
    lines.append('%s bounded=%s eps=%g rounds=%d alpha=%g scales=%s' % (
        noise, bounded, eps, rounds, alpha, ','.join('%.10g' % s for s in got)))
    if not ok:
        bad.append('%s bounded=%s eps=%g rounds=%d alpha=%g: sampler got scale(s) %s, calibrated scale is %.10g (ratio %.6f)' % (
            noise, bounded, eps, rounds, alpha, ['%.10g' % s for s in got], want, (got[0] / want) if got else float('nan')))

for l in lines:
    print(l)
if bad:
    print('FAIL: noise scale handed to the sampler does not match sensitivity/eps under the declared adjacency')
    for b in bad:
        print('  ' + b)
    sys.exit(1)
print('PASS digest=' + hashlib.sha256('\n'.join(lines).encode()).hexdigest()[:16])

"""Pair 1 demo: adaptive_grid.exponential_mechanism must hand choice() a
well-defined probability vector p_i ~ exp(coef*eps*q_i/sensitivity) for every
score vector and every eps it accepts, including the documented eps == inf
(non-private) configuration and scores of huge magnitude.

exit 0 + PASS + digest : all probability vectors agree with the definition
exit 1 + FAIL          : some configuration yields a wrong / undefined p
"""
import os, sys, hashlib, warnings

ROOT = os.path.dirname(os.path.dirname(os.path.dirname(os.path.abspath(__file__))))
sys.path.insert(0, ROOT)
sys.path.insert(0, os.path.join(ROOT, 'src'))
if os.path.isdir('/tmp/stubs'):
    sys.path.append('/tmp/stubs')
warnings.filterwarnings('ignore')

import numpy as np
import mbi
assert os.path.abspath(mbi.__file__).startswith(ROOT), mbi.__file__
import mechanisms.adaptive_grid as ag
assert os.path.abspath(ag.__file__).startswith(ROOT), ag.__file__


class RecordingPrng:
    """Stands in for np.random: records the p= argument of choice()."""
    def __init__(self, seed):
        self.rs = np.random.RandomState(seed)
        self.p = None
    def choice(self, n, p=None):
        self.p = None if p is None else np.array(p, dtype=float)
        return self.rs.choice(n, p=p)


def reference(q, eps, sensitivity, monotonic):
    """Definition, evaluated in extended precision on exactly shifted scores."""
    q = np.asarray(q, dtype=np.longdouble)
    d = q - q.max()                      # exact shift invariance
    if np.isinf(eps):                    # limit: uniform over the arg-max set
        w = (d == 0).astype(np.longdouble)
    else:
        coef = np.longdouble(1.0 if monotonic else 0.5)
        w = np.exp(coef * np.longdouble(eps) / np.longdouble(sensitivity) * d)
    return np.asarray(w / w.sum(), dtype=float)


rs = np.random.RandomState(20)
vectors = [
    ('small',        np.array([1.0, 5.0, 5.0, 2.0])),
    ('ties_all',     np.array([3.0, 3.0, 3.0])),
    ('with_zero',    np.array([0.0, 7.0, 2.5, 7.0, 0.0])),
    ('single',       np.array([42.0])),
    ('l1_errors',    np.round(rs.uniform(0, 4000, 10), 1)),
    ('huge_1e6',     np.array([1e6, 1e6 - 3.0, 1e6 - 0.25, 5.0, 2.0])),
    ('huge_shifted', np.array([1e6, 1e6 - 3.0, 1e6 - 0.25, 5.0, 2.0]) + 12345.0),
    ('negative',     -np.round(rs.uniform(0, 50, 6), 2)),
]
configs = [(eps, sens, mono)
           for eps in (0.01, 1.0, 37.5, 1e3, np.inf)
           for sens in (1.0, 2.0)
           for mono in (False, True)]

problems = []
lines = []
for name, q in vectors:
    for eps, sens, mono in configs:
        prng = RecordingPrng(7)
        tag = '%s eps=%r sens=%r monotonic=%r' % (name, eps, sens, mono)
        try:
            idx = ag.exponential_mechanism(q.copy(), eps, sens, prng=prng, monotonic=mono)
        except Exception as e:
            problems.append('%s: raised %s: %s' % (tag, type(e).__name__, e))
            continue
        p = prng.p
        ref = reference(q, eps, sens, mono)
        if p is None or p.shape != ref.shape or not np.all(np.isfinite(p)):
            problems.append('%s: p is not a finite probability vector: %r' % (tag, p))
            continue
        if abs(p.sum() - 1) > 1e-9 or np.abs(p - ref).max() > 1e-9:
            problems.append('%s: p=%s but definition gives %s' % (tag, p, ref))
            continue
        # shift invariance: adding a constant to all qualities must not matter
        prng2 = RecordingPrng(7)
        try:
            idx2 = ag.exponential_mechanism(q + 1000.0, eps, sens, prng=prng2, monotonic=mono)
        except Exception as e:
            problems.append('%s (+1000): raised %s: %s' % (tag, type(e).__name__, e))
            continue
        if prng2.p is None or not np.all(np.isfinite(prng2.p)) or np.abs(prng2.p - ref).max() > 1e-9:
            problems.append('%s: shifting all scores by 1000 changed p to %s' % (tag, prng2.p))
            continue
        lines.append('%s -> idx=%d idx_shift=%d p=%s' % (
            tag, idx, idx2, ','.join('%.9f' % v for v in p)))

if problems:
    print('FAIL: adaptive_grid.exponential_mechanism is not calibrated / not well defined')
    for msg in problems[:12]:
        print('  -', msg)
    print('  (%d failing configurations in total)' % len(problems))
    sys.exit(1)

digest = hashlib.sha256('\n'.join(lines).encode()).hexdigest()
print('PASS: %d (vector, eps, sensitivity, monotonic) configurations match the definition' % len(lines))
print('digest', digest)
sys.exit(0)

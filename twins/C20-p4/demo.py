"""Pair 2 demo: the clique selection of MWEM+PGM (mechanisms/mwem+pgm.py) must be
an exponential mechanism over the penalised marginal L1 errors with
    p_i  ~  exp( eps * score_i / (2 * sensitivity) ),
where sensitivity is 1 under unbounded adjacency (add/remove a record) and 2
under bounded adjacency (replace a record) - for EVERY noise configuration of
the surrounding mechanism.

The demo runs mwem_pgm end to end for each (noise, bounded) configuration,
records the p= argument of every np.random.choice call, recomputes the scores
from the arguments worst_approximated received, and compares.  It also calls
worst_approximated directly.

exit 0 + PASS + digest : every selection used the prescribed distribution
exit 1 + FAIL          : some configuration selected with a wrong distribution
"""
import os, sys, io, hashlib, warnings, contextlib, importlib.util

ROOT = os.path.dirname(os.path.dirname(os.path.dirname(os.path.abspath(__file__))))
sys.path.insert(0, ROOT)
sys.path.insert(0, os.path.join(ROOT, 'src'))
if os.path.isdir('/tmp/stubs'):
    sys.path.append('/tmp/stubs')
warnings.filterwarnings('ignore')

import numpy as np
import pandas as pd
import mbi
from mbi import Dataset, Domain, GraphicalModel
assert os.path.abspath(mbi.__file__).startswith(ROOT), mbi.__file__

spec = importlib.util.spec_from_file_location(
    'mwem_pgm_module', os.path.join(ROOT, 'mechanisms', 'mwem+pgm.py'))
mod = importlib.util.module_from_spec(spec)
spec.loader.exec_module(mod)

# synthetic_data() always raises under pandas 3 in this environment: stub it.
GraphicalModel.synthetic_data = lambda self, *a, **k: None


def make_data(seed):
    rs = np.random.RandomState(seed)
    n = 600
    a = rs.randint(0, 3, n)
    b = (a + rs.randint(0, 2, n)) % 4
    c = (b * 2 + rs.randint(0, 3, n)) % 5
    d = rs.randint(0, 2, n)
    e = (d + a) % 3
    df = pd.DataFrame({'A': a, 'B': b, 'C': c, 'D': d, 'E': e})
    return Dataset(df, Domain(['A', 'B', 'C', 'D', 'E'], [3, 4, 5, 2, 3]))


def reference(workload_answers, est, workload, eps, bounded, penalty=True):
    """The definition: softmax of eps*score/(2*sensitivity) in extended precision."""
    score = []
    for cl in workload:
        bias = est.domain.size(cl) if penalty else 0
        score.append(np.abs(workload_answers[cl] - est.project(cl).datavector()).sum() - bias)
    score = np.array(score, dtype=np.longdouble)
    sens = np.longdouble(2.0 if bounded else 1.0)
    w = np.exp(np.longdouble(eps) * (score - score.max()) / (2 * sens))
    return np.asarray(w / w.sum(), dtype=float)


class Recorder:
    """Records p= of np.random.choice and the arguments of worst_approximated."""
    def __init__(self):
        self.calls = []      # (reference p, actual p, chosen clique)
        self._pending = None
        self._orig_choice = np.random.choice
        self._orig_wa = mod.worst_approximated

    def choice(self, a, size=None, replace=True, p=None):
        self._pending = None if p is None else np.array(p, dtype=float)
        return self._orig_choice(a, size=size, replace=replace, p=p)

    def make_wa(self, bounded):
        def wa(workload_answers, est, workload, eps, *args, **kwargs):
            ref = reference(workload_answers, est, workload, eps, bounded)
            self._pending = None
            out = self._orig_wa(workload_answers, est, workload, eps, *args, **kwargs)
            self.calls.append((ref, self._pending, out, float(eps)))
            return out
        return wa

    def __enter__(self):
        np.random.choice = self.choice
        return self

    def __exit__(self, *exc):
        np.random.choice = self._orig_choice
        mod.worst_approximated = self._orig_wa


problems = []
lines = []


def check(tag, ref, p, chosen, eps):
    if p is None or p.shape != ref.shape or not np.all(np.isfinite(p)):
        problems.append('%s: no finite probability vector reached choice(): %r' % (tag, p))
        return
    err = np.abs(p - ref).max()
    if err > 1e-7:
        problems.append('%s (eps=%.6g): max |p - p_definition| = %.3e\n      p     = %s\n      p_def = %s'
                        % (tag, eps, err, np.round(p, 5), np.round(ref, 5)))
        return
    lines.append('%s chosen=%s p=%s' % (tag, '-'.join(chosen), ','.join('%.7f' % v for v in p)))


data = make_data(2020)

# ---- end-to-end runs: every (noise, bounded) configuration ------------------
for noise in ('laplace', 'gaussian'):
    for bounded in (False, True):
        for epsilon in (1.0, 8.0):
            with Recorder() as rec:
                mod.worst_approximated = rec.make_wa(bounded)
                np.random.seed(12345)
                with contextlib.redirect_stdout(io.StringIO()):
                    mod.mwem_pgm(data, epsilon, delta=1e-6, rounds=4, pgm_iters=60,
                                 noise=noise, bounded=bounded)
            if len(rec.calls) != 4:
                problems.append('noise=%s bounded=%s: expected 4 selections, saw %d'
                                % (noise, bounded, len(rec.calls)))
            for rnd, (ref, p, chosen, eps) in enumerate(rec.calls, 1):
                tag = 'mwem_pgm noise=%s bounded=%s epsilon=%g round=%d' % (noise, bounded, epsilon, rnd)
                check(tag, ref, p, chosen, eps)

# ---- direct calls of the primitive -----------------------------------------
import itertools
from mbi import FactoredInference
workload = list(itertools.combinations(data.domain, 2))
answers = {cl: data.project(cl).datavector() for cl in workload}
engine = FactoredInference(data.domain, log=False, iters=60)
est = engine.estimate([], data.records)   # uniform model, as in round 1 of mwem_pgm
for bounded in (False, True):
    for eps in (0.05, 0.7, 3.0):
        for penalty in (True, False):
            with Recorder() as rec:
                np.random.seed(99)
                chosen = mod.worst_approximated(answers, est, workload, eps,
                                                penalty=penalty, bounded=bounded)
                p = rec._pending
            ref = reference(answers, est, workload, eps, bounded, penalty)
            check('direct bounded=%s eps=%g penalty=%s' % (bounded, eps, penalty), ref, p, chosen, eps)

if problems:
    print('FAIL: MWEM+PGM selection is not exp(eps*score/(2*sensitivity)) with '
          'sensitivity 1 (unbounded) / 2 (bounded)')
    for msg in problems[:8]:
        print('  -', msg)
    print('  (%d failing selections in total)' % len(problems))
    sys.exit(1)

digest = hashlib.sha256('\n'.join(lines).encode()).hexdigest()
print('PASS: %d selections match the definition' % len(lines))
print('digest', digest)
sys.exit(0)

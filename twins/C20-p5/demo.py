"""C20 / pair 1 -- noise-scale helpers of mechanisms/mechanism.py.

Clause checked: laplace_noise_scale == sensitivity/epsilon, gaussian_noise_scale ==
sensitivity*sigma(eps,delta), both with the sensitivity doubled under bounded adjacency --
where "bounded" is whatever the mechanism object says AT THE TIME OF THE CALL -- and the
samplers draw with exactly the scale they are handed.

Exit 0 + PASS + digest when everything agrees with the definition, exit 1 + FAIL otherwise.
"""
import os, sys, copy, hashlib, math

ROOT = os.path.dirname(os.path.dirname(os.path.dirname(os.path.abspath(__file__))))
sys.path.insert(0, ROOT)
sys.path.insert(0, os.path.join(ROOT, 'src'))
try:
    import autodp  # noqa: F401
except ImportError:
    sys.path.append('/tmp/stubs')

import warnings
warnings.filterwarnings('ignore')
import numpy as np
import mechanisms.mechanism as mm
from mechanisms.mechanism import Mechanism

assert os.path.abspath(mm.__file__).startswith(ROOT), mm.__file__


# a deterministic, non-trivial stand-in for the analytic Gaussian calibration so that the
# check does not depend on which autodp (real or stub) is importable
def fake_ana_gaussian_mech(eps, delta):
    return {'sigma': math.sqrt(2.0 * math.log(1.25 / delta)) / eps}


mm.privacy_calibrator.ana_gaussian_mech = fake_ana_gaussian_mech


class RecordingPRNG:
    """Stands in for np.random; remembers the scale every sampler call was given."""

    def __init__(self, seed):
        self.rs = np.random.RandomState(seed)
        self.calls = []

    def normal(self, loc, scale, size=None):
        self.calls.append(('normal', float(loc), float(scale), size))
        return self.rs.normal(loc, scale, size)

    def laplace(self, loc, scale, size=None):
        self.calls.append(('laplace', float(loc), float(scale), size))
        return self.rs.laplace(loc, scale, size)

    def choice(self, *a, **k):
        return self.rs.choice(*a, **k)


failures = []
lines = []


def check(tag, got, want):
    got = float(got)
    want = float(want)
    lines.append('%s %r' % (tag, got))
    if got != want:
        failures.append('%s: got %r, definition gives %r' % (tag, got, want))


GRID = [(1.0, 1.0, 1e-6), (1, 0.5, 1e-9), (3.0, 2.0, 1e-5), (0.25, 0.1, 1e-6), (7, 3, 1e-3)]


def expect_lap(sens, eps, bounded):
    return (2.0 * sens if bounded else sens) / eps


def expect_gau(sens, eps, delta, bounded):
    return (2.0 * sens if bounded else sens) * fake_ana_gaussian_mech(eps, delta)['sigma']


def probe(tag, mech, bounded_now):
    """Compare every helper of `mech` with the definition under adjacency `bounded_now`."""
    for sens, eps, delta in GRID:
        check('%s lap s=%r e=%r' % (tag, sens, eps),
              mech.laplace_noise_scale(sens, eps), expect_lap(sens, eps, bounded_now))
        check('%s gau s=%r e=%r d=%r' % (tag, sens, eps, delta),
              mech.gaussian_noise_scale(sens, eps, delta), expect_gau(sens, eps, delta, bounded_now))
    # samplers: the scale they receive is the scale they draw with
    rec = mech.prng
    for b in (0.5, 3.0, expect_lap(1.0, 0.3, bounded_now)):
        n0 = len(rec.calls)
        mech.laplace_noise(b, 4)
        mech.gaussian_noise(b, 4)
        (k1, l1, s1, _), (k2, l2, s2, _) = rec.calls[n0:]
        check('%s sampler-lap b=%r' % (tag, b), s1, b)
        check('%s sampler-gau b=%r' % (tag, b), s2, b)
        if (k1, l1, k2, l2) != ('laplace', 0.0, 'normal', 0.0):
            failures.append('%s: samplers called %r' % (tag, rec.calls[n0:]))
    # best_noise_distribution: whichever family it picks, the frozen scale is the calibrated one
    for l1s, l2s, eps, delta in [(1.0, 1.0, 1.0, 1e-6), (8.0, 1.0, 0.5, 1e-3), (1.0, 1.0, 0.2, 1e-12)]:
        n0 = len(rec.calls)
        mech.best_noise_distribution(l1s, l2s, eps, delta)(3)
        kind, _, scale, _ = rec.calls[n0]
        b = expect_lap(l1s, eps, bounded_now)
        sg = expect_gau(l2s, eps, delta, bounded_now)
        want_kind, want = ('laplace', b) if math.sqrt(2) * b < sg else ('normal', sg)
        lines.append('%s best %s' % (tag, kind))
        if kind != want_kind:
            failures.append('%s best_noise_distribution picked %s, expected %s' % (tag, kind, want_kind))
        check('%s best l1=%r l2=%r e=%r' % (tag, l1s, l2s, eps), scale, want)


# ---- 1. freshly constructed objects, all spellings of the flag ------------------------------
for flag in (False, True, 0, 1, None, np.bool_(True), np.bool_(False)):
    probe('fresh[%r]' % (flag,), Mechanism(1.0, 1e-6, flag, prng=RecordingPRNG(0)), bool(flag))

# ---- 2. one long-lived object whose privacy definition is switched between releases ---------
m = Mechanism(1.0, 1e-6, bounded=False, prng=RecordingPRNG(1))
probe('live/unbounded', m, False)
m.bounded = True            # e.g. re-running the same configured mechanism under bounded DP
probe('live/->bounded', m, True)
m.bounded = False
probe('live/->unbounded', m, False)

m = Mechanism(2.0, 1e-9, bounded=True, prng=RecordingPRNG(2))
probe('live2/bounded', m, True)
m.bounded = False
probe('live2/->unbounded', m, False)


# ---- 3. subclasses that fix their adjacency after the base constructor ran ------------------
class BoundedOnly(Mechanism):
    """Mechanism that is only analysed under bounded DP (constructor has no such argument)."""

    def __init__(self, epsilon, delta, prng):
        Mechanism.__init__(self, epsilon, delta, None, prng)
        self.bounded = True


class FromParams(Mechanism):
    def __init__(self, params, prng):
        super().__init__(params['epsilon'], params['delta'], False, prng)
        for k, v in params.items():
            setattr(self, k, v)


probe('subclass/BoundedOnly', BoundedOnly(1.0, 1e-6, RecordingPRNG(3)), True)
probe('subclass/FromParams', FromParams({'epsilon': 0.5, 'delta': 1e-8, 'bounded': True}, RecordingPRNG(4)), True)
probe('subclass/FromParams-unb', FromParams({'epsilon': 0.5, 'delta': 1e-8, 'bounded': False}, RecordingPRNG(5)), False)

# ---- 4. copies -------------------------------------------------------------------------------
base = Mechanism(1.0, 1e-6, bounded=False, prng=RecordingPRNG(6))
twin = copy.copy(base)
twin.bounded = True
probe('copy/original', base, False)
probe('copy/switched', twin, True)

digest = hashlib.sha256('\n'.join(lines).encode()).hexdigest()
if failures:
    print('FAIL: %d of %d noise-scale checks disagree with sensitivity*(2 if bounded)/eps' % (len(failures), len(lines)))
    for f in failures[:12]:
        print('   ', f)
    if len(failures) > 12:
        print('    ...')
    sys.exit(1)
print('PASS %d checks' % len(lines))
print('digest', digest)

"""C20 / pair 2 -- mechanisms/mwem+pgm.py :: worst_approximated, used round after round.

Clause checked: in EVERY round the marginal is drawn with probability proportional to
exp(eps * q_i / (2 * sensitivity)), q_i = || true marginal_i - model marginal_i ||_1 - penalty_i,
sensitivity = 2 under bounded adjacency and 1 otherwise -- where "true marginal" means the
marginal of the data, no matter how often the selection step has already been invoked with the
same dictionary of workload answers.

The p= argument of every np.random.choice call is recorded and compared with the definition,
evaluated independently from the data set and the model that was current at the time.
Exit 0 + PASS + digest when all agree, exit 1 + FAIL otherwise.
"""
import os, sys, io, hashlib, itertools, contextlib, importlib.util

ROOT = os.path.dirname(os.path.dirname(os.path.dirname(os.path.abspath(__file__))))
sys.path.insert(0, ROOT)
sys.path.insert(0, os.path.join(ROOT, 'src'))
try:
    import autodp  # noqa: F401
except ImportError:
    sys.path.append('/tmp/stubs')

import warnings
warnings.filterwarnings('ignore')
import numpy as np
import pandas as pd
from scipy import sparse
from scipy.special import logsumexp
import mbi
from mbi import Dataset, Domain, FactoredInference, GraphicalModel

assert os.path.abspath(mbi.__file__).startswith(ROOT), mbi.__file__

spec = importlib.util.spec_from_file_location('mwem_pgm_mod', os.path.join(ROOT, 'mechanisms', 'mwem+pgm.py'))
mod = importlib.util.module_from_spec(spec)
spec.loader.exec_module(mod)

# synthetic_data() cannot run under the installed pandas; the selection steps happen before it
GraphicalModel.synthetic_data = lambda self, *a, **k: None

TOL = 1e-12
failures = []
lines = []

# ---- instrumentation: every choice(p=...) made by the module goes through here -------------
recorded = []
_chooser = np.random.RandomState(12345)


def recording_choice(a, size=None, replace=True, p=None):
    recorded.append(None if p is None else np.array(p, dtype=float))
    return _chooser.choice(a, size=size, replace=replace, p=p)


np.random.choice = recording_choice


def definition(answers, est, workload, eps, penalty, bounded):
    """Selection distribution straight from the statement of the property."""
    q = []
    for cl in workload:
        truth = np.array(answers[cl], dtype=float)
        model = np.array(est.project(cl).datavector(), dtype=float)
        q.append(np.abs(truth - model).sum() - (est.domain.size(cl) if penalty else 0))
    q = np.array(q)
    sens = 2.0 if bounded else 1.0
    logits = eps * q / (2.0 * sens)
    return np.exp(logits - logsumexp(logits))


def compare(tag, got, want):
    lines.append('%s %s' % (tag, ' '.join('%.10f' % v for v in got)))
    if got.shape != want.shape or not np.all(np.abs(got - want) <= TOL):
        failures.append('%s:\n      chosen with p = %s\n      definition  p = %s'
                        % (tag, np.round(got, 6).tolist(), np.round(want, 6).tolist()))


# ---- data -----------------------------------------------------------------------------------
rs = np.random.RandomState(7)
domain = Domain(['a', 'b', 'c', 'd'], [2, 3, 4, 2])
n = 600
a = rs.randint(0, 2, n)
b = (a + rs.randint(0, 2, n)) % 3
c = (b + 2 * a + (rs.rand(n) < 0.3)) % 4
d = (c % 2) ^ (rs.rand(n) < 0.2)
data = Dataset(pd.DataFrame({'a': a, 'b': b, 'c': c, 'd': d.astype(int)}), domain)
workload = list(itertools.combinations(domain.attrs, 2))
truth = {cl: data.project(cl).datavector() for cl in workload}


def fresh_answers():
    return {cl: data.project(cl).datavector() for cl in workload}


def fit(cliques, seed):
    r = np.random.RandomState(seed)
    ms = []
    for cl in cliques:
        x = data.project(cl).datavector()
        ms.append((sparse.eye(x.size), x + r.normal(0, 5.0, x.size), 5.0, cl))
    return FactoredInference(domain, log=False, iters=40).estimate(ms)


est1 = fit([('a',), ('b',), ('c',), ('d',)], 1)
est2 = fit([('a', 'b'), ('c',), ('d',)], 2)
est3 = fit([('a', 'b'), ('b', 'c'), ('d',)], 3)

# ---- A. a single selection on freshly computed answers --------------------------------------
for eps, penalty, bounded in [(0.05, True, False), (0.3, False, False), (0.05, True, True), (2.0, True, False)]:
    recorded.clear()
    ans = fresh_answers()
    mod.worst_approximated(ans, est1, workload, eps, penalty=penalty, bounded=bounded)
    compare('A single eps=%r pen=%r bnd=%r' % (eps, penalty, bounded), recorded[-1],
            definition(truth, est1, workload, eps, penalty, bounded))

# ---- B. the same answers dictionary serves several selections (as inside mwem_pgm) ----------
answers = fresh_answers()
for step, (est, eps, penalty, bounded) in enumerate([(est1, 0.05, True, False), (est1, 0.05, True, False),
                                                     (est2, 0.05, True, False), (est3, 0.2, False, True),
                                                     (est3, 0.02, True, False)]):
    recorded.clear()
    mod.worst_approximated(answers, est, workload, eps, penalty=penalty, bounded=bounded)
    compare('B reuse step=%d eps=%r pen=%r bnd=%r' % (step, eps, penalty, bounded), recorded[-1],
            definition(truth, est, workload, eps, penalty, bounded))
drift = max(float(np.abs(answers[cl] - truth[cl]).max()) for cl in workload)
lines.append('B answers-drift %.6f' % drift)

# ---- C. a candidate list that names a marginal twice (tolerated: it just gets two tickets) --
recorded.clear()
dup = [('a', 'b'), ('b', 'c'), ('a', 'b'), ('c', 'd')]
mod.worst_approximated(fresh_answers(), est1, dup, 0.05)
compare('C duplicate candidate', recorded[-1], definition(truth, est1, dup, 0.05, True, False))

# ---- D. the full mechanism: every round must select according to the definition -------------
orig_wa = mod.worst_approximated
expected = []


def spying_wa(workload_answers, est, cands, eps, penalty=True, bounded=False):
    expected.append(definition(truth, est, cands, eps, penalty, bounded))
    return orig_wa(workload_answers, est, cands, eps, penalty=penalty, bounded=bounded)


mod.worst_approximated = spying_wa
for noise, bounded, epsilon in [('gaussian', False, 3.0), ('laplace', False, 2.0), ('gaussian', True, 3.0), ('laplace', True, 4.0)]:
    recorded.clear()
    expected.clear()
    np.random.seed(2024)
    with contextlib.redirect_stdout(io.StringIO()):
        mod.mwem_pgm(data, epsilon, delta=1e-6, workload=workload, rounds=4, pgm_iters=40,
                     noise=noise, bounded=bounded)
    if len(recorded) != 4 or len(expected) != 4:
        failures.append('D %s bounded=%r: %d selections recorded, 4 expected' % (noise, bounded, len(recorded)))
    for rnd, (got, want) in enumerate(zip(recorded, expected), 1):
        compare('D mwem_pgm noise=%s bnd=%r round=%d' % (noise, bounded, rnd), got, want)
mod.worst_approximated = orig_wa

digest = hashlib.sha256('\n'.join(lines).encode()).hexdigest()
if failures:
    print('FAIL: %d of %d selections were not drawn proportionally to exp(eps*q/(2*sens)) of the true L1 errors'
          % (len(failures), len(lines) - 1))
    for f in failures[:6]:
        print('   ', f)
    if len(failures) > 6:
        print('    ...')
    if drift > 0:
        print('    (the workload answers handed to worst_approximated were altered by up to %.3f per cell)' % drift)
    sys.exit(1)
print('PASS %d selections' % (len(lines) - 1))
print('digest', digest)

"""C20 pair 1 - Mechanism.generalized_exponential_mechanism: who converts the base measure to log space.

For every call the probability vector handed to prng.choice() must be

    p_i  proportional to  mu_i * exp(0.5 * epsilon * s_i)

where s is the generalized-EM score vector (sensitivity 1) and mu the base measure of candidate i
(dict form: a measure; array form: the library's convention is that the array already holds log-measures).
The demo records the p= argument of choice() and compares it with that definition, computed
independently (brute force over all candidate pairs, no pareto pruning).
"""
import os, sys, hashlib, warnings

ROOT = os.path.dirname(os.path.dirname(os.path.dirname(os.path.abspath(__file__))))
sys.path[:0] = [os.path.join(ROOT, 'src'), ROOT]
sys.path.append('/tmp/stubs')            # stub autodp / hdmm packages provided by the environment
warnings.filterwarnings('ignore')

import numpy as np
from mechanisms.mechanism import Mechanism
import mechanisms.mechanism as mm
assert os.path.abspath(mm.__file__).startswith(ROOT), mm.__file__


class RecordingPrng:
    """Stands in for np.random: records the arguments of choice()."""
    def __init__(self, seed):
        self.rs = np.random.RandomState(seed)
        self.calls = []
    def choice(self, n, p=None):
        p = None if p is None else np.array(p, dtype=float)
        if p is not None and not np.all(np.isfinite(p)):
            self.calls.append((n, p, None))
            raise ValueError('probabilities contain NaN')
        idx = self.rs.choice(n, p=p)
        self.calls.append((n, p, idx))
        return idx


def reference_scores(q, ds, t):
    q = np.asarray(q, dtype=float); ds = np.asarray(ds, dtype=float)
    r = -q + t * ds
    s = np.empty(q.size)
    for i in range(q.size):
        s[i] = -max((r[i] - r[j]) / (ds[i] + ds[j]) for j in range(q.size))
    return s


def reference_p(q, ds, eps, t, mu=None):
    if t is None:
        t = 2 * np.log(len(q) / 0.5) / eps
    s = reference_scores(q, ds, t)
    w = 0.5 * eps * (s - s.max())
    if mu is not None:
        w = w + np.log(np.asarray(mu, dtype=float))
    w = w - w.max()
    e = np.exp(w)
    return e / e.sum()


failures = []
lines = []


def run_case(name, q, ds, eps, t=None, mu=None, mu_is_log_array=False):
    """q, ds, mu: lists aligned with `keys` (or plain arrays when keys is None)."""
    prng = RecordingPrng(20)
    mech = Mechanism(1.0, 0.0, False, prng=prng)
    keys = None
    if isinstance(q, dict):
        keys = list(q.keys())
        qv = [q[k] for k in keys]; dv = [ds[k] for k in keys]
        muv = None if mu is None else [mu[k] for k in keys]
    else:
        qv, dv = list(q), list(ds)
        muv = None if mu is None else list(np.exp(mu) if mu_is_log_array else mu)
    want = reference_p(qv, dv, eps, t, muv)
    try:
        got_key = mech.generalized_exponential_mechanism(q, ds, eps, t=t, base_measure=mu)
    except Exception as e:                       # noqa
        failures.append('%s: raised %s: %s' % (name, type(e).__name__, e))
        lines.append('%s RAISED' % name)
        return
    assert len(prng.calls) == 1, prng.calls
    n, p, idx = prng.calls[0]
    if n != len(qv) or p is None or p.shape != want.shape:
        failures.append('%s: choice() got n=%r, p of shape %r; %d candidates' % (name, n, None if p is None else p.shape, len(qv)))
        lines.append('%s SHAPE' % name)
        return
    err = float(np.abs(p - want).max())
    if not err < 1e-9:
        failures.append('%s: selection probabilities differ from mu_i*exp(eps*s_i/2): max abs error %.3g\n      got  %s\n      want %s'
                        % (name, err, np.round(p, 6), np.round(want, 6)))
    exp_key = idx if keys is None else keys[idx]
    same = (got_key == exp_key) if keys is None else (got_key == exp_key and type(got_key) is type(exp_key))
    if not same:
        failures.append('%s: returned %r but choice() drew index %d = %r' % (name, got_key, idx, exp_key))
    lines.append('%s p=%s key=%r' % (name, ' '.join('%.10f' % v for v in p), got_key if keys is not None else int(got_key)))


rs = np.random.RandomState(7)

# --- array form -----------------------------------------------------------------------------
q = rs.uniform(0, 50, 6); ds = rs.choice([1.0, 2.0, 5.0], 6)
run_case('array/plain', q, ds, 1.0)
run_case('array/t=3', q, ds, 0.7, t=3.0)
run_case('array/shifted+1e6', q + 1e6, ds, 1.0)
run_case('array/huge', q * 2e4, ds, 2.0)
run_case('array/ties', np.array([3.0, 3.0, 1.0, 3.0]), np.array([1.0, 1.0, 1.0, 2.0]), 1.5)
run_case('array/equal-sens', q, np.full(6, 2.0), 1.0)
# array form: the base measure is (by the library's convention) an array of LOG measures
logmu = np.log(np.array([1.0, 4.0, 0.25, 2.0, 1.0, 8.0]))
run_case('array/log-measure', q, ds, 1.0, mu=logmu, mu_is_log_array=True)

# --- dict form ------------------------------------------------------------------------------
names = [('a', 'b'), ('a', 'c'), ('b', 'c'), ('c',), ('a', 'b', 'c')]
qd = dict(zip(names, [12.0, 30.5, 30.5, 4.0, 41.0]))
dd = dict(zip(names, [1.0, 1.0, 2.0, 0.5, 4.0]))
run_case('dict/plain', qd, dd, 1.0)
run_case('dict/t=1', qd, dd, 2.0, t=1.0)
run_case('dict/str-keys', {'x': 1.0, 'y': 5.0, 'z': 2.0}, {'x': 1.0, 'y': 3.0, 'z': 1.0}, 1.0)
run_case('dict/huge', {k: 1e6 + 1e3 * v for k, v in qd.items()}, dd, 0.5)
# dict form WITH a base measure: the measure is a dict of plain (not log) weights
run_case('dict/measure>1', qd, dd, 1.0, mu=dict(zip(names, [2.0, 3.0, 4.0, 16.0, 1.5])))
run_case('dict/measure-with-1', qd, dd, 1.0, mu=dict(zip(names, [1.0, 3.0, 1.0, 16.0, 2.0])))
run_case('dict/measure<1', qd, dd, 1.0, mu=dict(zip(names, [0.2, 0.3, 0.1, 0.25, 0.15])))
run_case('dict/measure-uniform', qd, dd, 1.0, mu=dict(zip(names, [1.0] * 5)))
run_case('dict/measure-reordered', qd, dd, 1.0, mu=dict(reversed(list(zip(names, [2.0, 3.0, 4.0, 16.0, 1.5])))))

# --- the plain exponential mechanism is the callee: check it too (array + dict, with measure) -
prng = RecordingPrng(3)
mech = Mechanism(1.0, 0.0, False, prng=prng)
k = mech.exponential_mechanism({'u': 1.0, 'v': 4.0, 'w': 2.5}, 2.0, 2.0, base_measure={'u': 5.0, 'v': 1.0, 'w': 2.0})
n, p, idx = prng.calls[-1]
w = np.array([5.0, 1.0, 2.0]) * np.exp(0.5 * 2.0 / 2.0 * np.array([1.0, 4.0, 2.5])); w /= w.sum()
if not np.abs(p - w).max() < 1e-12 or k != 'uvw'[idx]:
    failures.append('exponential_mechanism(dict, base_measure): wrong distribution')
lines.append('em/dict p=%s key=%r' % (' '.join('%.10f' % v for v in p), k))

digest = hashlib.sha256('\n'.join(lines).encode()).hexdigest()
for l in lines:
    print(l)
print('digest', digest)
if failures:
    print('FAIL: generalized_exponential_mechanism does not sample proportionally to base measure * exp(eps*score/2)')
    for f in failures:
        print('  -', f)
    sys.exit(1)
print('PASS')

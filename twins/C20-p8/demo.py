"""C20 pair 2 - mwem+pgm.py :: worst_approximated: one selection slot per entry of the candidate list.

The candidates of the MWEM+PGM selection step are the ENTRIES of the list `workload`; entry i must be
drawn with probability proportional to exp(eps * q_i / (2 * sensitivity)), q_i = ||x_i - xest_i||_1 - bias_i,
and the clique returned must be the entry whose index np.random.choice() drew.  In particular a clique
that is listed k times owns k slots (k times the mass of a clique listed once) - listing a marginal
twice is how a caller up-weights it, and mwem_pgm() forwards a user-supplied workload list unchanged.

The demo records the p= argument of np.random.choice and compares it with the definition.
"""
import os, sys, io, hashlib, warnings, contextlib, importlib.util, itertools

ROOT = os.path.dirname(os.path.dirname(os.path.dirname(os.path.abspath(__file__))))
sys.path[:0] = [os.path.join(ROOT, 'src'), ROOT]
sys.path.append('/tmp/stubs')            # stub autodp / hdmm packages provided by the environment
warnings.filterwarnings('ignore')

import numpy as np
import pandas as pd
import mbi
from mbi import Dataset, Domain, FactoredInference, GraphicalModel
assert os.path.abspath(mbi.__file__).startswith(ROOT), mbi.__file__

spec = importlib.util.spec_from_file_location('mwem_pgm', os.path.join(ROOT, 'mechanisms', 'mwem+pgm.py'))
mwem = importlib.util.module_from_spec(spec)
spec.loader.exec_module(mwem)

failures = []
lines = []

# ---- recording np.random.choice --------------------------------------------------------------
calls = []
_orig_choice = np.random.choice
def recording_choice(a, size=None, replace=True, p=None):
    idx = _orig_choice(a, size=size, replace=replace, p=p)
    calls.append((a, None if p is None else np.array(p, dtype=float), idx))
    return idx
np.random.choice = recording_choice


def reference(workload_answers, est, workload, eps, penalty, bounded):
    q = []
    for cl in workload:
        x = np.asarray(workload_answers[cl], dtype=float)
        xest = est.project(cl).datavector()
        q.append(np.abs(x - xest).sum() - (est.domain.size(cl) if penalty else 0))
    q = np.array(q)
    w = 0.5 * eps / (2.0 if bounded else 1.0) * (q - q.max())
    e = np.exp(w)
    return e / e.sum()


def check(name, workload_answers, est, workload, eps, penalty=True, bounded=False, got=None):
    """Run worst_approximated (or take a recorded call `got`) and compare with the definition."""
    want = reference(workload_answers, est, workload, eps, penalty, bounded)
    if got is None:
        del calls[:]
        try:
            ret = mwem.worst_approximated(workload_answers, est, list(workload), eps, penalty=penalty, bounded=bounded)
        except Exception as e:                                   # noqa
            failures.append('%s: raised %s: %s' % (name, type(e).__name__, e))
            lines.append('%s RAISED' % name)
            return
        assert len(calls) == 1
        n, p, idx = calls[0]
    else:
        (n, p, idx), ret = got
    if n != len(workload) or p is None or p.shape != want.shape:
        msg = ('%s: %d candidates in the list, but choice() was asked to draw from %r slots (p has %s entries)'
               % (name, len(workload), n, None if p is None else p.size))
        if p is not None and p.size <= len(workload):
            got_mass, want_mass = {}, {}
            for i, v in enumerate(p):                    # slot i is returned as workload[i]
                got_mass[workload[i]] = got_mass.get(workload[i], 0.0) + v
            for cl, v in zip(workload, want):
                want_mass[cl] = want_mass.get(cl, 0.0) + v
            msg += '\n      probability of returning each clique: ' + ', '.join(
                '%s got %.4f want %.4f' % (''.join(cl), got_mass.get(cl, 0.0), want_mass[cl]) for cl in want_mass)
        failures.append(msg)
    else:
        err = float(np.abs(p - want).max())
        if not err < 1e-9:
            failures.append('%s: selection probabilities differ from the definition, max abs error %.3g' % (name, err))
    if ret != workload[idx]:
        failures.append('%s: choice() drew slot %d = %r but %r was returned' % (name, idx, workload[idx], ret))
    lines.append('%s n=%d p=%s ret=%r' % (name, n, ' '.join('%.9f' % v for v in p), ret))


# ---- fixtures -----------------------------------------------------------------------------------
rs = np.random.RandomState(11)
dom = Domain(['a', 'b', 'c', 'd'], [3, 4, 2, 5])
N = 400
a = rs.randint(0, 3, N)
df = pd.DataFrame({'a': a, 'b': (a + rs.randint(0, 2, N)) % 4, 'c': rs.randint(0, 2, N), 'd': (a * 2 + rs.randint(0, 2, N)) % 5})
data = Dataset(df, dom)
pairs = list(itertools.combinations(dom.attrs, 2))
answers = {cl: data.project(cl).datavector() for cl in pairs + [('b', 'a'), ('a',), ('a', 'b', 'c')]}

np.random.seed(5)
engine = FactoredInference(dom, log=False, iters=200)
meas = []
for cl in [('a',), ('b',), ('c',), ('d',), ('a', 'd')]:
    x = data.project(cl).datavector()
    meas.append((np.eye(x.size), x + np.random.normal(0, 2.0, x.size), 2.0, cl))
est = engine.estimate(meas)

# ---- direct calls -------------------------------------------------------------------------------
np.random.seed(123)
check('pairs', answers, est, pairs, 0.05)
check('pairs/no-penalty', answers, est, pairs, 0.05, penalty=False)
check('pairs/bounded', answers, est, pairs, 0.05, bounded=True)
check('pairs/eps=2', answers, est, pairs, 2.0)
check('mixed-sizes', answers, est, [('a',), ('a', 'b', 'c'), ('b', 'c'), ('c', 'd')], 0.05)
check('tie-by-transpose', answers, est, [('a', 'b'), ('b', 'a'), ('c', 'd')], 0.05)
check('single', answers, est, [('b', 'd')], 0.3)
big = {cl: 5e3 * v for cl, v in answers.items()}            # errors of magnitude ~1e6
check('huge', big, est, pairs, 1e-5)
check('huge/eps=1', big, est, pairs, 1.0)
# the same clique listed more than once (caller up-weights a marginal)
check('repeat/tail', answers, est, pairs + [pairs[0], pairs[2]], 0.05)
check('repeat/adjacent', answers, est, [pairs[1], pairs[1], pairs[4], pairs[3]], 0.05)
check('repeat/triple', answers, est, [pairs[5], pairs[0], pairs[5], pairs[5]], 0.05, bounded=True)
check('repeat/all-same', answers, est, [pairs[2]] * 3, 0.05)

# ---- the real mechanism: mwem_pgm() with a user workload that lists two marginals twice -----------
GraphicalModel.synthetic_data = lambda self, *a, **k: None      # always raises under pandas 3; not needed here
_orig_wa = mwem.worst_approximated
rounds = []
def spy(workload_answers, est, workload, eps, penalty=True, bounded=False):
    del calls[:]
    ret = _orig_wa(workload_answers, est, workload, eps, penalty=penalty, bounded=bounded)
    rounds.append((workload_answers, est, list(workload), eps, penalty, bounded, calls[0], ret))
    return ret
mwem.worst_approximated = spy
np.random.seed(99)
user_workload = pairs + [('a', 'b'), ('b', 'c')]
with contextlib.redirect_stdout(io.StringIO()):
    mwem.mwem_pgm(data, 1.0, delta=1e-6, workload=user_workload, rounds=3, pgm_iters=100)
mwem.worst_approximated = _orig_wa
assert len(rounds) == 3
for i, (wa, e, wl, eps, pen, bnd, call, ret) in enumerate(rounds):
    check('mwem_pgm/round%d' % (i + 1), wa, e, wl, eps, penalty=pen, bounded=bnd, got=(call, ret))

np.random.choice = _orig_choice
for l in lines:
    print(l)
print('digest', hashlib.sha256('\n'.join(lines).encode()).hexdigest())
if failures:
    print('FAIL: worst_approximated does not give every entry of the candidate list its own exp(eps*q/(2*sens)) slot')
    for f in failures:
        print('  -', f)
    sys.exit(1)
print('PASS')

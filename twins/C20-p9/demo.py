"""C20 pair 1 - adaptive_grid.exponential_mechanism: parameter order / defaults.

Checks, for every call style the original signature
    exponential_mechanism(q, eps, sensitivity, prng=np.random, monotonic=False)
supports, that the p= vector handed to prng.choice equals the definition
    p_i  proportional to  exp(coef * eps * q_i / sensitivity),
    coef = 1 only when monotonic=True was declared, 1/2 otherwise,
and that the draw is made from the generator the caller supplied.
"""
import os, sys, hashlib, warnings
warnings.filterwarnings('ignore')

ROOT = os.path.dirname(os.path.dirname(os.path.dirname(os.path.abspath(__file__))))
sys.path.insert(0, ROOT)
sys.path.insert(0, os.path.join(ROOT, 'src'))

import numpy as np
import pandas as pd
import mbi
from mbi import Dataset, Domain
assert os.path.abspath(mbi.__file__).startswith(ROOT), mbi.__file__
import mechanisms.adaptive_grid as ag
assert os.path.abspath(ag.__file__).startswith(ROOT), ag.__file__


class Recorder:
    """Stands in for a numpy generator: records the p= it is handed."""
    def __init__(self, name):
        self.name = name
        self.calls = []

    def choice(self, n, p=None, **kw):
        self.calls.append((n, None if p is None else np.array(p, dtype=float)))
        return int(np.argmax(p))


GLOBAL = Recorder('np.random (module level)')
np.random.choice = GLOBAL.choice          # what prng=np.random resolves to


def reference(q, eps, sensitivity, monotonic):
    q = np.asarray(q, dtype=float)
    coef = 1.0 if monotonic else 0.5
    s = coef * eps / sensitivity * (q - q.max())
    w = np.exp(s)
    return w / w.sum()


failures = []
digest = hashlib.sha256()
lines = []


def check(label, got_rec, want_rec, stray_rec, q, eps, sens, monotonic):
    """got_rec: the generator that should have been used; stray_rec: the other one."""
    want = reference(q, eps, sens, monotonic)
    if len(got_rec.calls) != 1 or len(stray_rec.calls) != 0:
        used = stray_rec if stray_rec.calls else None
        msg = '%s: draw was not made from the supplied generator (%s got %d calls, %s got %d)' % (
            label, got_rec.name, len(got_rec.calls), stray_rec.name, len(stray_rec.calls))
        if used is not None:
            p = used.calls[0][1]
            alt = reference(q, eps, sens, not monotonic)
            if np.allclose(p, alt, atol=1e-12) and not np.allclose(p, want, atol=1e-12):
                msg += '; and p matches coef=%s although monotonic=%s was declared' % (
                    '1' if not monotonic else '1/2', monotonic)
        failures.append(msg)
        return
    n, p = got_rec.calls[0]
    err = float(np.abs(p - want).max())
    if n != len(q) or not err <= 1e-12:
        alt = reference(q, eps, sens, not monotonic)
        extra = ''
        if np.allclose(p, alt, atol=1e-12):
            extra = ' (p matches the %s coefficient instead)' % ('monotonic' if not monotonic else 'non-monotonic')
        failures.append('%s: p deviates from definition by %.3g%s' % (label, err, extra))
        return
    digest.update(np.round(p, 12).tobytes())
    lines.append('%-46s n=%d  p[:3]=%s' % (label, n, np.array2string(p[:3], precision=6)))


rs = np.random.RandomState(20)
vectors = {
    'small':  rs.rand(6) * 4,
    'ties':   np.array([3.0, 3.0, 1.0, 3.0, 0.0]),
    'huge':   np.array([1e6, 1e6 - 3.0, 1e6 - 1.0, 9.99e5]),
    'ints':   np.array([5, 2, 7, 7, 1]),
}

for name, q in vectors.items():
    for eps, sens in [(1.0, 1.0), (0.3, 2.0), (2.5, 0.5)]:
        tag = '%s eps=%g s=%g' % (name, eps, sens)

        # (1) everything by keyword
        for mono in (False, True):
            r = Recorder('caller generator'); GLOBAL.calls.clear()
            ag.exponential_mechanism(q, eps, sensitivity=sens, prng=r, monotonic=mono)
            check(tag + ' kw mono=%s' % mono, r, r, GLOBAL, q, eps, sens, mono)

        # (2) generator passed positionally, as the original signature allows
        r = Recorder('caller generator'); GLOBAL.calls.clear()
        ag.exponential_mechanism(q, eps, sens, r)
        check(tag + ' positional prng', r, r, GLOBAL, q, eps, sens, False)

        # (3) generator and monotonic flag both positional
        r = Recorder('caller generator'); GLOBAL.calls.clear()
        try:
            ag.exponential_mechanism(q, eps, sens, r, True)
        except Exception as e:
            failures.append('%s positional prng,mono: call supported by the original signature raised %s: %s'
                            % (tag, type(e).__name__, e))
        else:
            check(tag + ' positional prng,mono', r, r, GLOBAL, q, eps, sens, True)

        # (4) default generator (module level np.random)
        r = Recorder('caller generator'); GLOBAL.calls.clear()
        ag.exponential_mechanism(q, eps, sens)
        check(tag + ' default prng', GLOBAL, GLOBAL, r, q, eps, sens, False)

# (5) the in-repo caller: select() over a small dataset
dom = Domain(['a', 'b', 'c', 'd'], [2, 3, 2, 2])
rs = np.random.RandomState(7)
df = pd.DataFrame({c: rs.randint(0, n, 200) for c, n in zip(dom.attrs, dom.shape)})
df['b'] = (df['a'] + rs.randint(0, 2, 200)) % 3
data = Dataset(df, dom)
model = Dataset(pd.DataFrame({c: rs.randint(0, n, 200) for c, n in zip(dom.attrs, dom.shape)}), dom)
GLOBAL.calls.clear()
rho = 0.02
edges = ag.select(data, model, rho)
eps_sel = np.sqrt(8 * rho / 3)
if len(GLOBAL.calls) != 3:
    failures.append('select: expected 3 draws from np.random, saw %d' % len(GLOBAL.calls))
else:
    import itertools
    cands = list(itertools.combinations(dom.attrs, 2))
    w = {e: np.linalg.norm(data.project(list(e)).datavector() - model.project(list(e)).datavector(), 1) for e in cands}
    n0, p0 = GLOBAL.calls[0]
    want = reference(np.array([w[e] for e in cands]), eps_sel, 1.0, False)
    err = float(np.abs(p0 - want).max())
    if not err <= 1e-12:
        failures.append('select round 1: p deviates from definition by %.3g' % err)
    for n, p in GLOBAL.calls:
        digest.update(np.round(p, 12).tobytes())
    lines.append('select edges=%s draws=%s' % (sorted(edges), [n for n, _ in GLOBAL.calls]))

if failures:
    print('FAIL')
    for f in failures[:12]:
        print('  -', f)
    print('  (%d violations in total)' % len(failures))
    sys.exit(1)

print('PASS')
for l in lines:
    print(l)
print('digest', digest.hexdigest())

"""Equivalence demo for refactor1 (Mechanism.exponential_mechanism in mechanisms/mechanism.py).

Prints a deterministic digest: for many quality vectors (arrays, lists, dicts,
ties, huge magnitudes, shifted copies, base measures, -inf qualities) the exact
p= vector handed to prng.choice(), the first argument of choice(), and the
returned key.  Must be byte-identical before and after the refactoring.
"""
import os, sys, warnings
ROOT = os.path.abspath(os.path.join(os.path.dirname(os.path.abspath(__file__)), '..', '..'))
sys.path[:0] = [os.path.join(ROOT, 'src'), ROOT, '/tmp/stubs']
warnings.filterwarnings('ignore')
import numpy as np
from mechanisms import mechanism as M
assert os.path.abspath(M.__file__).startswith(ROOT), M.__file__


class RecordingPrng:
    """Wraps a seeded RandomState and records every choice() call."""
    def __init__(self, seed):
        self.rs = np.random.RandomState(seed)
        self.calls = []
    def choice(self, a, size=None, replace=True, p=None):
        self.calls.append((a, size, replace, None if p is None else np.array(p, dtype=float)))
        return self.rs.choice(a, size=size, replace=replace, p=p)


def fmt(p):
    return '[' + ' '.join(float(x).hex() for x in np.asarray(p, dtype=float).ravel()) + ']'


def show(tag, mech, fn):
    mech.prng.calls.clear()
    try:
        with np.errstate(all='ignore'):
            out = fn()
        res = 'key=%r (%s)' % (out, type(out).__name__)
    except Exception as e:          # same exception expected before/after
        res = 'EXC %s: %s' % (type(e).__name__, e)
    print(tag)
    print('   ', res)
    for a, size, replace, p in mech.prng.calls:
        print('    choice(a=%r, size=%r, replace=%r) p=%s sum=%s' % (a, size, replace, fmt(p), float(p.sum()).hex()))


rng = np.random.RandomState(20)
for bounded in (False, True):
    mech = M.Mechanism(1.0, 1e-6, bounded, prng=RecordingPrng(7))
    print('==== bounded=%s' % bounded)

    # --- array qualities -------------------------------------------------
    vectors = {
        'small':      np.array([0.0, 1.0, 2.0, 3.5]),
        'ties':       np.array([5.0, 5.0, 1.0, 5.0, 1.0]),
        'all-equal':  np.full(6, 3.25),
        'single':     np.array([42.0]),
        'negative':   np.array([-3.0, -100.0, -0.5]),
        'huge':       np.array([1e6, 1e6 - 1, -1e6, 0.0, 999999.5]),
        'ints':       np.array([3, 1, 4, 1, 5, 9, 2, 6]),
        'random':     rng.normal(0, 50, size=9),
        'with -inf':  np.array([1.0, -np.inf, 2.0, -np.inf]),
    }
    for name, q in vectors.items():
        for eps, sens in [(1.0, 1.0), (0.1, 2.0), (13.7, 0.25), (1e-3, 1.0), (250.0, 1.0)]:
            show('array %-10s eps=%g sens=%g' % (name, eps, sens), mech,
                 lambda: mech.exponential_mechanism(q, eps, sens))
        # shift invariance inputs: q + c
        for c in (1000.0, -12345.678, 1e6):
            show('array %-10s shifted by %g eps=0.7 sens=1.5' % (name, c), mech,
                 lambda: mech.exponential_mechanism(q + c, 0.7, 1.5))
        # default sensitivity, python list input
        show('list  %-10s eps=2 default sens' % name, mech,
             lambda: mech.exponential_mechanism(list(q), 2.0))

    # --- array + array base measure (log-space, as the method expects) -----
    q = np.array([1.0, 4.0, 2.0, 4.0, -7.0])
    for bm in (np.zeros(5), np.log([1.0, 2.0, 3.0, 4.0, 5.0]), np.array([0.0, -np.inf, 0.0, 1.0, 30.0])):
        for eps, sens in [(1.0, 1.0), (0.3, 2.0), (40.0, 1.0)]:
            show('array+base %s eps=%g sens=%g' % (fmt(bm), eps, sens), mech,
                 lambda: mech.exponential_mechanism(q, eps, sens, base_measure=bm))
            show('array+base %s shifted eps=%g sens=%g' % (fmt(bm), eps, sens), mech,
                 lambda: mech.exponential_mechanism(q + 1e6, eps, sens, base_measure=bm))

    # --- dict qualities, permuted key orders, dict base measures -----------
    keys = [('a', 'b'), ('c',), ('b', 'd', 'a'), 'z', 17]
    vals = [10.0, 12.5, 12.5, -4.0, 1e6]
    bmv = [1.0, 8.0, 2.0, 0.5, 3.0]
    for perm in ([0, 1, 2, 3, 4], [4, 3, 2, 1, 0], [2, 0, 4, 1, 3]):
        qd = {keys[i]: vals[i] for i in perm}
        # base-measure dict deliberately in a DIFFERENT insertion order than qualities
        bd = {keys[i]: bmv[i] for i in reversed(perm)}
        bd_extra = dict(bd); bd_extra['unused'] = 99.0
        for eps, sens in [(1.0, 1.0), (1e-5, 1.0), (0.5, 3.0)]:
            show('dict perm=%s eps=%g sens=%g' % (perm, eps, sens), mech,
                 lambda: mech.exponential_mechanism(qd, eps, sens))
            show('dict perm=%s eps=%g sens=%g +base(dict, other order)' % (perm, eps, sens), mech,
                 lambda: mech.exponential_mechanism(qd, eps, sens, base_measure=bd))
            show('dict perm=%s eps=%g sens=%g +base(dict, extra key)' % (perm, eps, sens), mech,
                 lambda: mech.exponential_mechanism(qd, eps, sens, base_measure=bd_extra))
        show('dict perm=%s missing base key' % perm, mech,
             lambda: mech.exponential_mechanism(qd, 1.0, 1.0, base_measure={keys[0]: 1.0}))

    # --- the generalized EM goes through exponential_mechanism -------------
    qs = np.array([10.0, 30.0, 25.0, 5.0, 29.0])
    ds = np.array([1.0, 4.0, 2.0, 1.0, 8.0])
    show('generalized array', mech, lambda: mech.generalized_exponential_mechanism(qs, ds, 1.0))
    show('generalized array t=0.3', mech, lambda: mech.generalized_exponential_mechanism(qs, ds, 0.5, t=0.3))
    qd = dict(zip('vwxyz', qs)); dd = dict(zip('vwxyz', ds)); bd = dict(zip('zyxwv', [1.0, 2.0, 3.0, 4.0, 5.0]))
    show('generalized dict', mech, lambda: mech.generalized_exponential_mechanism(qd, dd, 2.0))
    show('generalized dict+base', mech, lambda: mech.generalized_exponential_mechanism(qd, dd, 2.0, base_measure=bd))

    # --- empty input: same failure before and after -------------------------
    show('empty array', mech, lambda: mech.exponential_mechanism(np.array([]), 1.0, 1.0))
    show('empty dict', mech, lambda: mech.exponential_mechanism({}, 1.0, 1.0))

# default prng (np.random module), seeded
np.random.seed(123)
mech = M.Mechanism(1.0, 0.0, False)
print('==== default prng')
print([int(mech.exponential_mechanism(np.array([1.0, 2.0, 3.0, 2.5]), 1.5, 1.0)) for _ in range(40)])
print([mech.exponential_mechanism({'x': 1.0, 'y': 2.0, 'w': 2.0}, 3.0, 2.0, base_measure={'w': 1.0, 'x': 5.0, 'y': 1.0}) for _ in range(40)])

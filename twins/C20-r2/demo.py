"""Equivalence demo for refactor2 (noise-scale helpers, samplers and
best_noise_distribution in mechanisms/mechanism.py).

Prints return values of *_noise_scale (hex floats, with type), the
(loc, scale, size) the samplers hand to prng.normal()/prng.laplace() -- however
they are spelled, positionally or by keyword -- the drawn samples, and which
sampler/scale best_noise_distribution picks.  Also checks what happens to
ndarray sensitivities passed in (in-place doubling is preserved).
Must be byte-identical before and after the refactoring.
"""
import os, sys, warnings
ROOT = os.path.abspath(os.path.join(os.path.dirname(os.path.abspath(__file__)), '..', '..'))
sys.path[:0] = [os.path.join(ROOT, 'src'), ROOT, '/tmp/stubs']
warnings.filterwarnings('ignore')
import numpy as np
from autodp import privacy_calibrator
from mechanisms import mechanism as M
assert os.path.abspath(M.__file__).startswith(ROOT), M.__file__


def h(x):
    a = np.asarray(x)
    if a.ndim == 0:
        return '%s:%s' % (type(x).__name__, float(x).hex())
    return '%s%s[%s]' % (a.dtype, a.shape, ' '.join(float(v).hex() for v in a.ravel()))


class RecordingPrng:
    """Seeded RandomState that records the effective (loc, scale, size) of each draw."""
    def __init__(self, seed):
        self.rs = np.random.RandomState(seed)
        self.calls = []
    def normal(self, loc=0.0, scale=1.0, size=None):
        self.calls.append(('normal', loc, scale, size))
        return self.rs.normal(loc, scale, size)
    def laplace(self, loc=0.0, scale=1.0, size=None):
        self.calls.append(('laplace', loc, scale, size))
        return self.rs.laplace(loc, scale, size)


# make the (stubbed) analytic Gaussian calibration depend on eps/delta so that
# the product l2_sensitivity * sigma(eps, delta) is actually exercised
def fake_ana_gaussian_mech(eps, delta):
    return {'sigma': np.sqrt(2 * np.log(1.25 / delta)) / eps}
privacy_calibrator.ana_gaussian_mech = fake_ana_gaussian_mech
M.privacy_calibrator.ana_gaussian_mech = fake_ana_gaussian_mech

sens_values = [1.0, 1, 2, 0.5, 3.75, np.float64(7.0), np.float32(1.5), np.int64(3), 1e6, 1e-9, 0.0, 0.1 + 0.2]
eps_values = [1.0, 0.1, 2, 1e-3, 13.37, np.float64(0.5), 3]

for bounded in (False, True, 0, 1):
    mech = M.Mechanism(1.0, 1e-6, bounded, prng=RecordingPrng(3))
    print('==== bounded=%r' % (bounded,))
    for s in sens_values:
        for e in eps_values:
            with np.errstate(all='ignore'):
                lap = mech.laplace_noise_scale(s, e)
                gau = mech.gaussian_noise_scale(s, e, 1e-6)
                gau2 = mech.gaussian_noise_scale(s, e, 1e-3)
            print('sens=%s eps=%s laplace=%s gauss(1e-6)=%s gauss(1e-3)=%s' % (h(s), h(e), h(lap), h(gau), h(gau2)))

    # ndarray sensitivities (not used by the library itself, but legal numpy):
    arr = np.array([1.0, 2.5, 4.0]); lap = mech.laplace_noise_scale(arr, 0.5)
    print('array laplace ->', h(lap), 'argument afterwards', h(arr))
    arr = np.array([1.0, 2.5, 4.0]); gau = mech.gaussian_noise_scale(arr, 0.5, 1e-6)
    print('array gauss   ->', h(gau), 'argument afterwards', h(arr))

    # samplers draw with exactly the scale they are given
    for scale in (1.0, 0.25, 17.5, 1e6, 1e-12, 0.0, np.float64(3.0), 2):
        for size in (1, 4, (2, 3), None):
            mech.prng.calls.clear()
            g = mech.gaussian_noise(scale, size)
            l = mech.laplace_noise(scale, size)
            print('scale=%s size=%r calls=%r' % (h(scale), size, mech.prng.calls))
            print('    gaussian', h(g))
            print('    laplace ', h(l))

    # best_noise_distribution: which sampler, bound to which scale, and a draw
    for l1, l2 in [(1.0, 1.0), (4.0, 2.0), (100.0, 10.0), (1.0, 30.0), (2, 1), (0.5, 0.5), (9.0, 3.0)]:
        for e, d in [(1.0, 1e-6), (0.1, 1e-9), (5.0, 1e-2), (1.0, 0.3), (20.0, 1e-12)]:
            mech.prng.calls.clear()
            f = mech.best_noise_distribution(l1, l2, e, d)
            draw = f(5)
            print('best l1=%r l2=%r eps=%r delta=%r -> %s args=%s kw=%r calls=%r draw=%s' % (
                l1, l2, e, d, f.func.__name__, [h(a) for a in f.args], f.keywords, mech.prng.calls, h(draw)))
    # exact tie sqrt(2)*b == sigma  -> gaussian in the original
    sig = fake_ana_gaussian_mech(1.0, 1e-6)['sigma']
    mult = 2.0 if bounded else 1.0
    l2 = 1.0; l1 = float(mult * l2 * sig / np.sqrt(2) / mult)
    f = mech.best_noise_distribution(l1, l2, 1.0, 1e-6)
    print('tie-ish l1=%s -> %s %s' % (h(l1), f.func.__name__, [h(a) for a in f.args]))

# samplers with the real numpy generators as prng (module, RandomState, Generator)
print('==== real prngs')
np.random.seed(99)
for name, prng in [('np.random', np.random), ('RandomState', np.random.RandomState(5)), ('Generator', np.random.default_rng(5))]:
    mech = M.Mechanism(1.0, 1e-6, True, prng=prng)
    print(name, h(mech.gaussian_noise(2.5, 3)), h(mech.laplace_noise(0.75, (2, 2))), h(mech.best_noise_distribution(1.0, 1.0, 1.0, 1e-6)(3)),
          h(mech.best_noise_distribution(1.0, 30.0, 1.0, 1e-6)(3)))

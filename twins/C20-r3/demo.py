"""Equivalence demo for refactor3 (module-level selection primitives:
mechanisms/mst.py exponential_mechanism, mechanisms/adaptive_grid.py
exponential_mechanism, mechanisms/mwem+pgm.py worst_approximated).

Prints, in hex floats, the exact p= vector each primitive hands to choice(),
the first argument of choice(), and the returned value, for many score vectors
(ties, huge magnitudes, shifted copies, monotonic on/off, eps=inf, penalty on/off,
bounded on/off, permuted attribute orders in cliques).  Also runs the two
select() routines end to end on a tiny dataset with numpy seeded.
Must be byte-identical before and after the refactoring.
"""
import os, sys, warnings, importlib.util
ROOT = os.path.abspath(os.path.join(os.path.dirname(os.path.abspath(__file__)), '..', '..'))
sys.path[:0] = [os.path.join(ROOT, 'src'), ROOT, '/tmp/stubs']
warnings.filterwarnings('ignore')
import numpy as np
import pandas as pd
import mbi
from mbi import Domain, Dataset
from mechanisms import mst, adaptive_grid
spec = importlib.util.spec_from_file_location('mwem_pgm', os.path.join(ROOT, 'mechanisms', 'mwem+pgm.py'))
mwem_pgm = importlib.util.module_from_spec(spec); spec.loader.exec_module(mwem_pgm)
for mod in (mbi, mst, adaptive_grid, mwem_pgm):
    assert os.path.abspath(mod.__file__).startswith(ROOT), mod.__file__


def fmt(p):
    return '[' + ' '.join(float(x).hex() for x in np.asarray(p, dtype=float).ravel()) + ']'


class RecordingPrng:
    def __init__(self, seed):
        self.rs = np.random.RandomState(seed)
        self.calls = []
    def choice(self, a, size=None, replace=True, p=None):
        self.calls.append((a, size, replace, None if p is None else np.array(p, dtype=float)))
        return self.rs.choice(a, size=size, replace=replace, p=p)


def show(tag, calls, fn):
    del calls[:]
    try:
        with np.errstate(all='ignore'):
            out = fn()
        res = 'result=%r (%s)' % (out, type(out).__name__)
    except Exception as e:
        res = 'EXC %s: %s' % (type(e).__name__, e)
    print(tag)
    print('   ', res)
    for a, size, replace, p in calls:
        print('    choice(a=%r, size=%r, replace=%r) p=%s dtype-sum=%s' % (a, size, replace, fmt(p), float(p.sum()).hex()))


# ---------------------------------------------------------------------------
# 1. mst.exponential_mechanism and adaptive_grid.exponential_mechanism
# ---------------------------------------------------------------------------
rng = np.random.RandomState(20)
vectors = {
    'small':     np.array([0.0, 1.0, 2.0, 3.5]),
    'ties':      np.array([5.0, 5.0, 1.0, 5.0, 1.0]),
    'all-equal': np.full(6, 3.25),
    'single':    np.array([42.0]),
    'negative':  np.array([-3.0, -100.0, -0.5]),
    'huge':      np.array([1e6, 1e6 - 1, -1e6, 0.0, 999999.5]),
    'ints':      np.array([3, 1, 4, 1, 5, 9, 2, 6]),
    'random':    rng.normal(0, 50, size=9),
    'l1-errors': np.abs(rng.normal(0, 3000, size=7)),
}
for modname, mod in (('mst', mst), ('adaptive_grid', adaptive_grid)):
    prng = RecordingPrng(11)
    print('==== %s.exponential_mechanism' % modname)
    for name, q in vectors.items():
        for monotonic in (False, True):
            for eps, sens in [(1.0, 1.0), (0.1, 2.0), (13.7, 0.25), (1e-3, 1.0), (250.0, 1.0), (np.inf, 1.0), (2, 1)]:
                show('%s %-9s monotonic=%s eps=%r sens=%r' % (modname, name, monotonic, eps, sens), prng.calls,
                     lambda: mod.exponential_mechanism(q, eps, sens, prng=prng, monotonic=monotonic))
            for c in (1000.0, -12345.678, 1e6):
                show('%s %-9s monotonic=%s shifted by %r' % (modname, name, monotonic, c), prng.calls,
                     lambda: mod.exponential_mechanism(q + c, 0.7, 1.5, prng=prng, monotonic=monotonic))
    show('%s empty' % modname, prng.calls, lambda: mod.exponential_mechanism(np.array([]), 1.0, 1.0, prng=prng))
    # default arguments (prng=np.random, monotonic=False)
    np.random.seed(5)
    print('default prng draws', [int(mod.exponential_mechanism(vectors['small'], 1.5, 1.0)) for _ in range(30)])

# ---------------------------------------------------------------------------
# 2. mwem+pgm.worst_approximated  (uses np.random.choice directly)
# ---------------------------------------------------------------------------
np_calls = []
_orig_choice = np.random.choice
def recording_choice(a, size=None, replace=True, p=None):
    np_calls.append((a, size, replace, None if p is None else np.array(p, dtype=float)))
    return _orig_choice(a, size=size, replace=replace, p=p)
np.random.choice = recording_choice


class FakeMarginal:
    def __init__(self, values): self.values = values
    def datavector(self): return self.values.flatten()

class FakeModel:
    """Stands in for a GraphicalModel: a full joint table over the domain."""
    def __init__(self, domain, joint):
        self.domain = domain; self.joint = joint
    def project(self, attrs):
        attrs = list(attrs)
        idx = [self.domain.attrs.index(a) for a in attrs]
        other = tuple(i for i in range(len(self.domain.attrs)) if i not in idx)
        marg = self.joint.sum(axis=other)              # axes in domain order
        kept = [i for i in range(len(self.domain.attrs)) if i in idx]
        marg = np.transpose(marg, [kept.index(i) for i in idx])   # -> order requested
        return FakeMarginal(marg)

domain = Domain(['A', 'B', 'C', 'D'], [2, 3, 4, 5])
r2 = np.random.RandomState(1)
truth = FakeModel(domain, r2.poisson(40, size=domain.shape).astype(float))
model = FakeModel(domain, np.full(domain.shape, truth.joint.sum() / truth.joint.size))
workloads = {
    'pairs':    [('A', 'B'), ('A', 'C'), ('B', 'C'), ('C', 'D'), ('A', 'D'), ('B', 'D')],
    'permuted': [('B', 'A'), ('D', 'C'), ('C', 'A', 'B'), ('D',), ('D', 'B', 'A')],
    'mixed':    [('A',), ('D', 'C', 'B', 'A'), ('B', 'C')],
    'single':   [('C', 'B')],
    'dupes':    [('A', 'B'), ('A', 'B'), ('B', 'A')],
}
print('==== mwem+pgm.worst_approximated')
np.random.seed(2020)
for wname, wl in workloads.items():
    answers = {cl: truth.project(cl).datavector() for cl in wl}
    int_answers = {cl: truth.project(cl).datavector().astype(int) for cl in wl}
    for penalty in (True, False):
        for bounded in (False, True):
            for eps in (1.0, 0.05, 1e-4, 30.0, 1e3):
                show('%s penalty=%s bounded=%s eps=%r' % (wname, penalty, bounded, eps), np_calls,
                     lambda: mwem_pgm.worst_approximated(answers, model, wl, eps, penalty=penalty, bounded=bounded))
    show('%s int answers, defaults' % wname, np_calls, lambda: mwem_pgm.worst_approximated(int_answers, model, wl, 0.5))
    # huge errors (magnitude ~1e6): scale the truth
    big = {cl: 2e4 * v for cl, v in answers.items()}
    show('%s huge errors' % wname, np_calls, lambda: mwem_pgm.worst_approximated(big, model, wl, 2.0, bounded=True))
show('empty workload', np_calls, lambda: mwem_pgm.worst_approximated({}, model, [], 1.0))
show('missing answer', np_calls, lambda: mwem_pgm.worst_approximated({}, model, [('A', 'B')], 1.0))

# ---------------------------------------------------------------------------
# 3. end to end: mst.select and adaptive_grid.select on a tiny dataset
# ---------------------------------------------------------------------------
print('==== select() end to end')
r3 = np.random.RandomState(7)
n = 400
a = r3.randint(0, 2, n); b = (a + r3.randint(0, 2, n)) % 3; c = r3.randint(0, 4, n); d = (c + b + r3.randint(0, 2, n)) % 5
data = Dataset(pd.DataFrame({'A': a, 'B': b, 'C': c, 'D': d}), domain)
for seed, rho in [(0, 0.5), (1, 0.01), (2, 50.0)]:
    np.random.seed(seed)
    log1 = mst.measure(data, [(col,) for col in data.domain], 5.0)
    show('mst.select seed=%d rho=%r' % (seed, rho), np_calls, lambda: mst.select(data, rho, log1))
    show('mst.select seed=%d rho=%r with clique' % (seed, rho), np_calls, lambda: mst.select(data, rho, log1, cliques=[('A', 'C')]))
    show('adaptive_grid.select seed=%d rho=%r' % (seed, rho), np_calls, lambda: adaptive_grid.select(data, model, rho))
    show('adaptive_grid.select seed=%d rho=%r targets' % (seed, rho), np_calls, lambda: adaptive_grid.select(data, model, rho, targets=['D']))
